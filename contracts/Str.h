/* Contracts for the C-string leaf functions of src/String.c and src/Type.c (K1) */
#ifndef CV_STR_H
#define CV_STR_H
#include "contracts/common.h"

/* assumed libc contract: strcmp is *some* function of its two arguments; which one (unsigned-byte
 * lexicographic order) is libc's business. The ghost cv_strcmp_ret is the value libc would
 * return for (cv_strcmp_a, cv_strcmp_b). */
extern const char *cv_strcmp_a, *cv_strcmp_b;
extern int cv_strcmp_ret;
int strcmp(const char* a, const char* b)
__CPROVER_requires(a == cv_strcmp_a && b == cv_strcmp_b)
__CPROVER_ensures(__CPROVER_return_value == cv_strcmp_ret)
__CPROVER_assigns()
;

/* c_str as seen from String_*: on a String object it is the buffer pointer
 * (discharged by the K2 job C16.dispatch.c_str) */
char* c_str(var self)
__CPROVER_requires(IS_OBJ(self, String))
__CPROVER_ensures(__CPROVER_return_value == ((struct String*)self)->val)
__CPROVER_assigns()
;
#endif
