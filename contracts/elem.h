/* Element model (DESIGN.md 3.2): the contracts of the dispatchers as seen from a container. A container proof never
 * looks inside an element; it sees an element type ELEM through assign / destruct / eq / cmp / hash / cast / size / swap.
 * The model instantiates "a type with its own constructor, assignment and destructor that owns a resource": every
 * constructed element holds a ledger token; assign onto zero-filled memory issues one, destruct retires it, and tokens
 * travel with the bytes when a container relocates an element.
 * Discharged against the real dispatch for Int (val = the int64) by C09.dispatch / C10.dispatch; the ledger discipline
 * is the contract of the New/Assign classes themselves (String is the built-in witness, C16). */
#ifndef CV_ELEM_H
#define CV_ELEM_H
#include "contracts/common.h"

struct Elem { int64_t val; int64_t tok; };
static var ELEM_rec[] = { NULL, CELLO_ALLOC_HEADER CELLO_MAGIC_HEADER CELLO_CACHE_HEADER
  NULL, "__Name", "Elem", NULL, "__Size", (var)sizeof(struct Elem), NULL, NULL, NULL };
#define ELEM ((var)((char*)ELEM_rec + sizeof(struct Header)))
#define EV(p) (((struct Elem*)(p))->val)
#define ET(p) (((struct Elem*)(p))->tok)

#ifdef CV_LEDGER_LIGHT
/* light ledger (Table, Tree): tok is a typestate 0 = unconstructed, 1 = live, 2 = finalised; conservation is checked as
 * "#live elements held by the container == issued - retired" (a duplicated or dropped element breaks the equation) */
static int cv_issued, cv_retired; static var cv_last_destructed; static int64_t cv_last_destructed_val;
#define CV_NTOK 3
static int cv_live[CV_NTOK] = {0, 1, 0};
var header_init(var head, var type, int alloc) {
  struct Header* self = head; self->type = type;
#if CELLO_ALLOC_CHECK == 1
  self->alloc = (var)(intptr_t)alloc;
#endif
#if CELLO_MAGIC_CHECK == 1
  self->magic = (var)CELLO_MAGIC_NUM;
#endif
  return ((char*)self) + sizeof(struct Header);
}
struct Header* header(var self) { return HDR(self); }
var type_of(var self) { return HDR(self)->type ? HDR(self)->type : Type; }
static int cv_is_elem(var x) { return HDR(x)->type == ELEM && MAGIC_OK(x); }
static int64_t cv_new_token(void) { cv_issued++; return 1; }
var assign(var dst, var src) {
  __CPROVER_assert(cv_is_elem(dst), "[C19] the destination of an element assignment carries the element type in its header");
  CV_LIMIT(HDR(src)->type == ELEM, "harness: element assignment from an element");
  if (ET(dst) == 0) { ET(dst) = cv_new_token(); }
  else { __CPROVER_assert(ET(dst) == 1, "[C05] assignment onto non-zero memory only if it holds a live element"); }
  EV(dst) = EV(src);
  return dst;
}
var destruct(var x) {
  __CPROVER_assert(cv_is_elem(x), "[C19] a finalised element carries the element type in its header");
  __CPROVER_assert(ET(x) == 1, "[C05] only a live element is finalised (never twice, never an unconstructed one)");
  ET(x) = 2; cv_retired++; cv_last_destructed = x; cv_last_destructed_val = EV(x);
  return x;
}
static int cv_live_count(void) { return cv_issued - cv_retired; }
#else
#define CV_NTOK 24
static int cv_live[CV_NTOK]; static int cv_next_tok = 1; static int cv_issued, cv_retired;
static var cv_last_destructed;

/* header_init per its K1 contract (C19.header_init.k1) - the real Alloc.c is not linked because this file models the
 * dispatchers that live there (destruct, copy) */
var header_init(var head, var type, int alloc) {
  struct Header* self = head; self->type = type;
#if CELLO_ALLOC_CHECK == 1
  self->alloc = (var)(intptr_t)alloc;
#endif
#if CELLO_MAGIC_CHECK == 1
  self->magic = (var)CELLO_MAGIC_NUM;
#endif
  return ((char*)self) + sizeof(struct Header);
}
struct Header* header(var self) { return HDR(self); }
var type_of(var self) { return HDR(self)->type ? HDR(self)->type : Type; }

static int cv_is_elem(var x) { return HDR(x)->type == ELEM && MAGIC_OK(x); }
static int64_t cv_new_token(void) {
  int64_t t = cv_next_tok++;
  CV_LIMIT(t < CV_NTOK, "harness: token pool large enough");
  cv_live[t] = 1; cv_issued++; return t;
}
var assign(var dst, var src) {
  __CPROVER_assert(cv_is_elem(dst), "[C19] the destination of an element assignment carries the element type in its header");
  CV_LIMIT(HDR(src)->type == ELEM, "harness: element assignment from an element");
  if (ET(dst) == 0) { ET(dst) = cv_new_token(); }
  else { __CPROVER_assert(ET(dst) > 0 && ET(dst) < CV_NTOK && cv_live[ET(dst)], "[C05] assignment onto non-zero memory only if it holds a live element"); }
  EV(dst) = EV(src);
  return dst;
}
var destruct(var x) {
  __CPROVER_assert(cv_is_elem(x), "[C19] a finalised element carries the element type in its header");
  __CPROVER_assert(ET(x) > 0 && ET(x) < CV_NTOK && cv_live[ET(x)], "[C05] only a live element is finalised (never twice, never an unconstructed one)");
  if (ET(x) > 0 && ET(x) < CV_NTOK) cv_live[ET(x)] = 0;
  cv_retired++; cv_last_destructed = x;
  return x;
}
#endif
int cmp(var a, var b) { return (EV(a) > EV(b)) - (EV(a) < EV(b)); }
bool eq(var a, var b) { return EV(a) == EV(b); }
bool neq(var a, var b) { return EV(a) != EV(b); }
bool lt(var a, var b) { return EV(a) < EV(b); }
bool gt(var a, var b) { return EV(a) > EV(b); }
uint64_t __CPROVER_uninterpreted_cvH(int64_t);
#ifdef CV_NARROW_HASH
/* narrow uninterpreted hash: sound for Table.c because the hash is consumed only as hash(key) % nslots (checked mechanically
 * by the driver on every run) and [0,64) contains every residue for nslots <= 53 */
static uint64_t cv_hash_of(int64_t v) { return __CPROVER_uninterpreted_cvH(v) & 63; }
#else
static uint64_t cv_hash_of(int64_t v) { return __CPROVER_uninterpreted_cvH(v); }
#endif
uint64_t hash(var x) { return cv_hash_of(EV(x)); }
size_t size(var type) { CV_LIMIT(type == ELEM, "harness: size of the element type"); return sizeof(struct Elem); }
int64_t c_int(var self) { return ((struct Int*)self)->val; }
void swap(var a, var b) { struct Elem t = *(struct Elem*)a; *(struct Elem*)a = *(struct Elem*)b; *(struct Elem*)b = t; }
var cast(var self, var type) {
  if (type_of(self) == type) return self;
  return exception_throw(ValueError, "cast", NULL);
}
/* a live element with an arbitrary value, placed in caller-provided storage */
static void cv_make_elem(var slot, int64_t v) { EV(slot) = v; ET(slot) = cv_new_token(); }
#ifndef CV_LEDGER_LIGHT
static int cv_live_count(void) { int n = 0; for (int i = 1; i < CV_NTOK; i++) n += cv_live[i]; return n; }
#endif
#endif
