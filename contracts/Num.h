/* Contracts for src/Num.c (re-declarations placed after the real definitions). */
#ifndef CV_NUM_H
#define CV_NUM_H
#include "contracts/common.h"

/* c_int / c_float as seen by Int_* / Float_*: on an Int (Float) object they return the value.
 * Discharged against the real dispatcher by the K2 job C09.dispatch.* (props/C09.py). */
#define REQUIRES_c_int(self)   IS_OBJ(self, Int)
#define ENSURES_c_int(self, r) ((r) == ((struct Int*)(self))->val)
int64_t c_int(var self)
__CPROVER_requires(REQUIRES_c_int(self))
__CPROVER_ensures(ENSURES_c_int(self, __CPROVER_return_value))
__CPROVER_assigns()
;

#define REQUIRES_c_float(self)   IS_OBJ(self, Float)
#define ENSURES_c_float(self, r) (__CPROVER_isnand(((struct Float*)(self))->val) ? __CPROVER_isnand(r) : (r) == ((struct Float*)(self))->val && __CPROVER_signd(r) == __CPROVER_signd(((struct Float*)(self))->val))
double c_float(var self)
__CPROVER_requires(REQUIRES_c_float(self))
__CPROVER_ensures(ENSURES_c_float(self, __CPROVER_return_value))
__CPROVER_assigns()
;

/* C09: Int_Cmp orders exactly as the integers do, over the whole int64 range */
#define IVAL(p) (((struct Int*)(p))->val)
#define FVAL(p) (((struct Float*)(p))->val)
#define FBITS(p) (*(uint64_t*)&((struct Float*)(p))->val)
static int Int_Cmp(var self, var obj)
__CPROVER_requires(__CPROVER_r_ok(self, sizeof(struct Int)) && IS_OBJ(obj, Int))
__CPROVER_ensures((__CPROVER_return_value < 0) == (IVAL(self) < IVAL(obj)))
__CPROVER_ensures((__CPROVER_return_value > 0) == (IVAL(self) > IVAL(obj)))
__CPROVER_ensures((__CPROVER_return_value == 0) == (IVAL(self) == IVAL(obj)))
__CPROVER_assigns()
;

/* C09: Float_Cmp orders exactly as the reals do (NaN excluded by the property) */
static int Float_Cmp(var self, var obj)
__CPROVER_requires(__CPROVER_r_ok(self, sizeof(struct Float)) && IS_OBJ(obj, Float))
__CPROVER_requires(!__CPROVER_isnand(FVAL(self)) && !__CPROVER_isnand(FVAL(obj)))
__CPROVER_ensures((__CPROVER_return_value < 0) == (FVAL(self) < FVAL(obj)))
__CPROVER_ensures((__CPROVER_return_value > 0) == (FVAL(self) > FVAL(obj)))
__CPROVER_ensures((__CPROVER_return_value == 0) == (FVAL(self) == FVAL(obj)))
__CPROVER_assigns()
;

/* C10: hash is a function of the value */
static uint64_t Int_Hash(var self)
__CPROVER_requires(IS_OBJ(self, Int))
__CPROVER_ensures(__CPROVER_return_value == (uint64_t)IVAL(self))
__CPROVER_assigns()
;

/* C10: Int_Assign / Float_Assign copy the value and nothing else */
static void Int_Assign(var self, var obj)
__CPROVER_requires(__CPROVER_w_ok(self, sizeof(struct Int)) && IS_OBJ(obj, Int))
__CPROVER_ensures(IVAL(self) == __CPROVER_old(IVAL(obj)))
__CPROVER_assigns(IVAL(self))
;
static void Float_Assign(var self, var obj)
__CPROVER_requires(__CPROVER_w_ok(self, sizeof(struct Float)) && IS_OBJ(obj, Float))
__CPROVER_requires(!__CPROVER_isnand(FVAL(obj)))
__CPROVER_ensures(FBITS(self) == __CPROVER_old(FBITS(obj)))
__CPROVER_assigns(FVAL(self))
;
#endif
