/* Independent ghost scan over the raw type record: decl(T, C) = instance of the first entry of T after the two
 * built-in entries whose class-name string equals name(C), else NULL (DESIGN.md C08). */
#ifndef CV_TYPESCAN_H
#define CV_TYPESCAN_H
#define CV_NBUILTINS (2 + (CELLO_CACHE_NUM / 3))
static int cv_streq(const char* a, const char* b) { size_t i = 0; while (a[i] != 0 && a[i] == b[i]) { i++; } return a[i] == b[i]; }
static const char* cv_type_name(var type) { return (const char*)((struct Type*)type)[CELLO_CACHE_NUM / 3].inst; }
static var cv_decl(var type, const char* clsname) {
  struct Type* t = (struct Type*)type + CV_NBUILTINS;
  while (t->name) { if (cv_streq((const char*)t->name, clsname)) { return t->inst; } t++; }
  return NULL;
}
#endif
