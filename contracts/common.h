/* Shared harness / ghost vocabulary (DESIGN.md section 3). Only ever compiled by goto-cc
 * (guard CELLO_VERIF); nothing here is linked into Cello. */
#ifndef CV_COMMON_H
#define CV_COMMON_H

#ifndef CELLO_VERIF
#error "verification-only header"
#endif

#ifdef CV_COVER_PASS
/* cover pass: contract assertions are dropped, each reachability witness becomes an
 * assertion that MUST FAIL (cbmc's __CPROVER_cover statement is not usable here) */
#define ASSERT(c, msg)
#define COVER(c, msg) __CPROVER_assert(!(c), "COVER " msg)
/* a witness on one of several alternative paths of a harness: at least one witness per harness must be reached */
#define COVER_ALT(c, msg) __CPROVER_assert(!(c), "COVER ALT " msg)
#else
#define ASSERT(c, msg) __CPROVER_assert((c), msg)
#define COVER(c, msg)
#define COVER_ALT(c, msg)
#endif
/* a limit of the harness's environment model: reported as "undecided", and nothing behind it is explored */
#define CV_LIMIT(c, t) do { __CPROVER_assert((c), t); __CPROVER_assume(c); } while (0)
#define ASSUME(c) __CPROVER_assume(c)

#define HDR(p) ((struct Header*)((char*)(p) - sizeof(struct Header)))
#define OBJ_OK(p, T) (__CPROVER_r_ok(HDR(p), sizeof(struct Header) + sizeof(struct T)))
#define IS_OBJ(p, T) (OBJ_OK(p, T) && HDR(p)->type == (T))
/* storage for one Cello object with its header in front, initialised through the real header_init */
#define OBJ(T, name) struct { struct Header h; struct T v; } name
#define MK(name, T, alloc) ((struct T*)header_init(&(name).h, (T), (alloc)))

/* configuration-robust header facts: CELLO_NDEBUG drops the allocation class and the magic number from the header */
#if CELLO_ALLOC_CHECK == 1
#define ALLOC_IS(p, cls) (HDR(p)->alloc == (var)(intptr_t)(cls))
#else
#define ALLOC_IS(p, cls) 1
#endif
#if CELLO_MAGIC_CHECK == 1
#define MAGIC_OK(p) (HDR(p)->magic == (var)CELLO_MAGIC_NUM)
#else
#define MAGIC_OK(p) 1
#endif

#define SIGN(x) (((x) > 0) - ((x) < 0))

int nondet_int(void);
unsigned nondet_unsigned(void);
long nondet_long(void);
unsigned long nondet_ulong(void);
double nondet_double(void);
unsigned char nondet_uchar(void);
char nondet_char(void);
_Bool nondet_bool(void);
void* nondet_ptr(void);

/* ---- exceptional postconditions (DESIGN.md 2.4) ------------------------------------
 * exception_throw never returns. Every harness replaces it (goto-instrument --replace-calls
 * exception_throw:cv_throw, or its noreturn contract under DFCC) by cv_throw, which records the
 * exception, runs the harness' exceptional postcondition cv_on_throw() and cuts the path. */
extern var cv_thrown;      /* exception object of the throw that ended this path          */
extern int cv_throws;      /* number of throws seen (0 on every normally returning path)  */
void cv_on_throw(var obj); /* defined by each harness: the exceptional postcondition      */

#endif
