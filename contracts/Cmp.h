/* Contracts for src/Cmp.c */
#ifndef CV_CMP_H
#define CV_CMP_H
#include "contracts/common.h"

/* cmp as seen by the derived predicates: an arbitrary int, fixed by the ghost cv_cmp_ret */
extern int cv_cmp_ret;
int cmp(var self, var obj)
__CPROVER_ensures(__CPROVER_return_value == cv_cmp_ret)
__CPROVER_assigns()
;
bool eq(var self, var obj)  __CPROVER_ensures(__CPROVER_return_value == (cv_cmp_ret == 0)) __CPROVER_assigns();
bool neq(var self, var obj) __CPROVER_ensures(__CPROVER_return_value == (cv_cmp_ret != 0)) __CPROVER_assigns();
bool gt(var self, var obj)  __CPROVER_ensures(__CPROVER_return_value == (cv_cmp_ret > 0))  __CPROVER_assigns();
bool lt(var self, var obj)  __CPROVER_ensures(__CPROVER_return_value == (cv_cmp_ret < 0))  __CPROVER_assigns();
bool ge(var self, var obj)  __CPROVER_ensures(__CPROVER_return_value == (cv_cmp_ret >= 0)) __CPROVER_assigns();
bool le(var self, var obj)  __CPROVER_ensures(__CPROVER_return_value == (cv_cmp_ret <= 0)) __CPROVER_assigns();
#endif
