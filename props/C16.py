from vdriver import Job

LEVEL = "other"
TECHNIQUE = "bounded inductive contract check (CBMC) on the real String.c: one operation on a heap String holding an arbitrary C string of enumerated length, against reference models of the libc string functions"
LEVEL_TEXT = ("Every String operation (new, assign, concat/append, resize, clear, del, mem, rem, formatted write) runs on a heap String whose buffer holds an arbitrary C string of each "
              "length 0..3 (thorough 0..4) with symbolic non-NUL bytes (including bytes above 127), operand strings of length 0..2 (3); afterwards the String must hold exactly the abstract "
              "result, NUL-terminated inside its own allocation, with len/c_str agreeing; rem deletes the first occurrence (start, middle, end, overlapping) and raises on an absent substring "
              "leaving the target unchanged; stack receivers must raise ValueError before any reallocation. Longer strings are not decided, hence not a proof.")
NOTE = "libc string functions are reference models (assumed to be what libc does); vsnprintf/vsprintf assumed consistent with each other; realloc/free are cbmc's models without allocation failure; operands overlapping the target (the String itself, a view of its buffer) included; String_Cmp on texts of length <= 2 against the definition of the order; String_Hash is the K1 proof of C10"
EXPLANATION = LEVEL_TEXT
TRUSTED = ["libc strlen/strcpy/strcat/strstr/memmove behave as the reference models in stubs/libc_str.c", "vsnprintf(NULL,0,..) returns the length vsprintf writes"]

F = {"cmp": ["String_Cmp", "String_C_Str"], "assign_alias": ["String_Assign"], "concat_alias": ["String_Concat"], "assign": ["String_Assign"], "concat": ["String_Concat"], "resize": ["String_Resize", "String_Len"], "clear": ["String_Clear"], "del": ["String_Del"], "new": ["String_New", "String_Assign"],
     "mem_rem": ["String_Mem", "String_Rem", "String_C_Str"], "format_to": ["String_Format_To"]}

def jobs(tier, only=None, prefix="C16"):
    la_max = 4 if tier == "thorough" else 3
    lb_max = 3 if tier == "thorough" else 2
    J = []
    def add(op, defs, name, stack=False):
        if only and op not in only and not (stack and "stack" in only):
            return
        J.append(Job("%s.String.%s.%s" % (prefix, op, name), "C16", "K3", "String/k3.c", "h_" + op, F[op], link=["src/Exception.c", "stubs/throw.c", "stubs/libc_str.c"],
                     defines=defs, replace_calls=["exception_throw:cv_throw"], unwind=(140 if any(d.startswith("GLEN") for d in defs) else la_max + lb_max + 4), cbmc=["--no-malloc-may-fail"], group="String.%s%s" % (op, ".stack" if stack else ""),
                     also=["C12", "C19", "C14", "C10", "C09"], timeout=300, case=" ".join(defs), replay="C16_string.c",
                     bound="String: target length <= %d, operand length <= %d, every byte value except NUL" % (la_max, lb_max)))
    for la in range(0, la_max + 1):
        for lb in range(0, lb_max + 1):
            add("assign", ["LA=%d" % la, "LB=%d" % lb], "a%d.b%d" % (la, lb))
            add("concat", ["LA=%d" % la, "LB=%d" % lb], "a%d.b%d" % (la, lb))
            add("mem_rem", ["LA=%d" % la, "LB=%d" % lb], "a%d.b%d" % (la, lb))
            if la <= 2:
                add("cmp", ["LA=%d" % la, "LB=%d" % lb], "a%d.b%d" % (la, lb))
        for r in range(0, la + 3):
            add("resize", ["LA=%d" % la, "RESIZE_TO=%d" % r], "a%d.to%d" % (la, r))
        add("clear", ["LA=%d" % la], "a%d" % la); add("del", ["LA=%d" % la], "a%d" % la)
        for pos in range(0, la + 1):
            add("format_to", ["LA=%d" % la, "POS=%d" % pos], "a%d.pos%d" % (la, pos))
    for la in range(0, 3):
        for al in (1, 2):
            add("assign_alias", ["LA=%d" % la, "ALIAS=%d" % al], "a%d.alias%d" % (la, al)); add("concat_alias", ["LA=%d" % la, "ALIAS=%d" % al], "a%d.alias%d" % (la, al))
    for g in [0, 1, 31, 32, 33, 63, 64, 65, 127, 128, 129]:      # chunk lengths around the usual scratch-buffer sizes
        add("format_to", ["LA=2", "POS=1", "GLEN=%d" % g], "a2.pos1.len%d" % g)
    for lb in range(0, lb_max + 1):
        add("new", ["LB=%d" % lb], "b%d" % lb)
    for op, defs in [("assign", ["LA=2", "LB=1"]), ("concat", ["LA=2", "LB=1"]), ("resize", ["LA=2", "RESIZE_TO=1"]), ("clear", ["LA=2"]), ("del", ["LA=2"]), ("format_to", ["LA=2", "POS=1"])]:
        add(op, defs + ["HEAPCLS=AllocStack"], "stack", stack=True)
        add(op, defs + ["HEAPCLS=AllocData"], "embedded")
    return J
