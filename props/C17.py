from vdriver import Job
from props import gcjobs

LEVEL = "other"
TECHNIQUE = "bounded inductive contract check (CBMC) on the real GC.c: one function per obligation set on an arbitrary robin-hood registry of enumerated capacity, callees that recurse or finalise cut by recording stubs"
LEVEL_TEXT = 'Bounded inductive check of the registry invariant (robin-hood order, unique pointers, stored homes, count, address window, marks clear) on the real GC_Set_Ptr, GC_Mem_Ptr, GC_Rem_Ptr, GC_Sweep compaction, GC_Set and rehash (modular over the set_ptr contract) for arbitrary registries of capacity 1 and 3 (thorough 5), with exact GC_Hash and modulo over pointers drawn from a 64-cell address pool; the view {pointer -> root flag} changes exactly as the operation says, for the operand and an arbitrary other pointer.'
NOTE = 'capacities above 5 not explored; address patterns restricted to 64 consecutive cells (every residue pattern modulo capacities <= 53)'
EXPLANATION = LEVEL_TEXT
TRUSTED = []

def jobs(tier):
    return gcjobs.gc_jobs(tier, "C17")
