from vdriver import Job
from props import gcjobs, seqcases, C02 as _C02, C03 as _C03

LEVEL = "other"
TECHNIQUE = "bounded inductive contract check (CBMC) on the real GC.c: one function per obligation set on an arbitrary robin-hood registry of enumerated capacity, callees that recurse or finalise cut by recording stubs"
LEVEL_TEXT = "Ledger per ghost object (number of destruct and dealloc calls) through recording sinks on the real GC.c, Alloc.c and container code: GC_Rem_Ptr finalises and releases exactly the deleted object once and strikes it from a sweep's pending list; GC_Sweep finalises exactly the unmarked non-roots once each, in destruct-then-dealloc order; GC_Del leaves no managed non-root behind and releases the slot array once; del/del_raw/del_root (C19 harness) and container deletion release everything they own. Registry capacity 3 (thorough 5). del while the collector is stopped is a listed known finding; an owner's destructor deleting an owned object during a sweep is undecided (solver limit)."
NOTE = 'destructor re-entrancy during a sweep decided modularly (the contract of GC_Rem_Ptr for a pending object + the sweep with del cut by that contract; the real GC_Rem nested in the real GC_Sweep does not finish); teardown order in Thread.c not under contract; allocator contracts assumed'
EXPLANATION = LEVEL_TEXT
TRUSTED = []

def jobs(tier):
    box = [Job("C06.Box.k2", "C06", "K2", "Pointer/k2.c", "h_box", ["Box_Del", "Box_Assign", "Box_Ref", "Box_Deref", "Box_New"], link=["src/Exception.c", "src/Num.c", "stubs/throw.c"],
               replace_calls=["exception_throw:cv_throw"], unwind=4, group="Box.k2", assumptions=["del(pointee) hands the pointee to the collector (GC_Rem, C06)"])]
    return box + gcjobs.gc_jobs(tier, "C06") + seqcases.array_jobs(tier, "C06") + _C02.table_jobs(tier, "C06") + _C03.tree_jobs(tier, "C06")
