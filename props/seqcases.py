"""case enumeration shared by the sequence containers (C04, C05, C11, C12 obligations live in the same harnesses)"""
from vdriver import Job

def caps(n):
    return sorted(set([n, n + 1, n + n // 2, 2 * n + 2]))

OPS_FOR = {
    "C04": None,   # all
    "C05": ["push", "pop", "push_at", "pop_at", "get_set", "mem_rem", "resize", "del", "concat", "assign", "sort", "sort_partition"],
    "C11": ["iter", "iter_dup"],
    "C12": ["pop", "push_at", "pop_at", "get_set", "set_bad", "mem_rem", "resize", "stack"],
    "C19": ["get_set", "push", "push_at", "concat", "stack"],
    "C09": ["hash_cmp"],
    "C10": ["hash_cmp", "assign"],
    "C06": ["del"],
    "C01": ["mark"],
    "C14": ["show"],
}

SORT_MAX = 4      # modular sort obligations: Array / Tuple lengths up to this in both tiers (the full range at length 5 does not finish within 15 minutes)

def extract_function(relpath, name, newname):
    """mechanical extraction (every run, from the working tree): the text of one function of /repo, from its definition line to the
    closing brace in column 0, with the name in the DEFINITION line replaced - calls inside the body keep the original name, so that
    --replace-calls cuts them while the harness enters the body itself. Drops nothing of the body; fails loudly if the shape is unexpected."""
    import os, re, vdriver
    src = open(os.path.join(vdriver.REPO, relpath)).read()
    m = re.search(r"^static [^\n;{]*\b%s\([^{;]*\{\n.*?^\}\n" % re.escape(name), src, re.S | re.M)
    if not m:
        return "#error extraction-break: %s not found in %s\n" % (name, relpath)
    text = m.group(0)
    head, body = text.split("{", 1)
    if head.count(name) != 1:
        return "#error extraction-break: unexpected definition line for %s\n" % name
    return "/* extracted from %s on this run, definition renamed %s -> %s */\n" % (relpath, name, newname) + head.replace(name, newname) + "{" + body

def array_jobs(tier, prop):
    J = _array_jobs(tier, prop) + _list_jobs(tier, prop) + _tuple_jobs(tier, prop)
    ops = OPS_FOR.get(prop)
    if ops is not None:
        J = [j for j in J if j.group.split(".")[1] in ops]
    if prop in ("C05", "C06"):
        J = [j for j in J if not j.group.startswith("Tuple.")]     # a Tuple holds references, it owns nothing
    return J

def _array_jobs(tier, prop):
    nmax = 4 if tier == "thorough" else 3
    J = []
    L = ["src/Exception.c", "src/Iter.c", "src/Pointer.c", "stubs/throw.c"]
    F = {"push": ["Array_Push", "Array_Reserve_More", "Array_Alloc", "Array_Item", "Array_Step"],
         "pop": ["Array_Pop", "Array_Reserve_Less"], "push_at": ["Array_Push_At", "Array_Reserve_More", "Array_Alloc"],
         "pop_at": ["Array_Pop_At", "Array_Reserve_Less"], "get_set": ["Array_Get", "Array_Set"], "set_bad": ["Array_Set"],
         "mem_rem": ["Array_Mem", "Array_Rem", "Array_Pop_At"], "resize": ["Array_Resize", "Array_Clear"], "del": ["Array_Del"],
         "concat": ["Array_Concat", "Array_Reserve_More"], "assign": ["Array_Assign", "Array_Clear"],
         "iter": ["Array_Iter_Init", "Array_Iter_Next", "Array_Iter_Last", "Array_Iter_Prev", "Array_Iter_Type", "Array_Len"],
         "hash_cmp": ["Array_Hash", "Array_Cmp"], "mark": ["Array_Mark"], "show": ["Array_Show"], "sort": ["Array_Sort_By", "Array_Sort_Part", "Array_Sort_Partition"],
         "sort_partition": ["Array_Sort_Partition"], "sort_part": ["Array_Sort_Part (partition and recursive calls cut by their contracts)"], "sort_by": ["Array_Sort_By"]}
    def add(op, n, s, idx=None, m=None, covers=False, extra=(), rng=None, rc=(), gen=None, defs2=()):
        defs = ["N=%d" % n, "S=%d" % s] + list(defs2)
        name = "%s.Array.%s.n%d.s%d" % (prop, op, n, s)
        if rng is not None:
            defs += ["SL=%d" % rng[0], "SR=%d" % rng[1]]; name += ".r%d_%d" % rng
        if idx is not None:
            defs.append("IDX=%d" % idx); name += ".i%s" % (str(idx).replace("-", "m"))
        if m is not None:
            defs.append("M=%d" % m); name += ".m%d" % m
        J.append(Job(name, "C04", "K3", "Array/k3.c", "h_" + op, F[op], link=L, defines=defs, replace_calls=["exception_throw:cv_throw"] + list(rc),
                     unwind=8, cbmc=["--unwindset", "cv_live_count.0:26", "--no-malloc-may-fail"] + list(extra), covers=covers, gen=gen,
                     group="Array.%s" % op, also=["C05", "C11", "C12", "C19", "C09", "C10", "C06", "C01", "C14"], timeout=(1800 if tier == "thorough" else 300),
                     bound="Array: length <= %d, every capacity the growth/shrink policy yields, every index in [-len-3, len+2]" % nmax,
                     case="len=%d cap=%d%s%s" % (n, s, "" if idx is None else " index=%d" % idx, "" if m is None else " operand_len=%d" % m),
                     replay="seq_array.c",
                     assumptions=["element model (contracts/elem.h): assign/destruct/eq/cmp/hash/size/cast/swap on the element type; discharged for Int by C09/C10 dispatch obligations",
                                  "malloc/realloc/free: cbmc built-in models, allocation failure not explored (--no-malloc-may-fail)",
                                  "header_init per its K1 contract (C19.header_init.k1)"]))
    body = extract_function("src/Array.c", "Array_Sort_Part", "Array_Sort_Part_body")
    def sort_modular(n):
        # modular: partition contract, sort_part by induction over the range length, sort_by composition
        for lo in range(0, n):
            for hi in range(lo + 1, n):
                add("sort_partition", n, n, covers=(lo == 0 and hi == n - 1), rng=(lo, hi))
                add("sort_part", n, n, covers=(lo == 0 and hi == n - 1), rng=(lo, hi), rc=["Array_Sort_Partition:cv_partition_stub", "Array_Sort_Part:cv_sort_part_stub"],
                    gen={"gen_sort_part.h": body}, defs2=["CV_SORT_BODY"])
        add("sort_by", n, n, covers=True, rc=["Array_Sort_Part:cv_sort_part_top"])
    for n in range(nmax + 1, SORT_MAX + 1):
        sort_modular(n)
    for n in range(0, nmax + 1):
        for s in caps(n):
            first = (s == n)
            add("push", n, s, covers=first); add("pop", n, s, covers=first)
            for i in range(-(n + 3), n + 3):
                add("push_at", n, s, idx=i, covers=(first and i == 0))
            for i in range(-(n + 2), n + 2):
                add("pop_at", n, s, idx=i, covers=(first and i == 0))
            for r in range(0, n + 3):
                add("resize", n, s, idx=r, covers=(first and r == 0))
            for m in range(0, 3):
                add("concat", n, s, m=m, covers=(first and m == 1))
        for s in caps(n):      # negative indices must count from the length, not from the capacity
            for i in range(-(n + 1), n + 1):
                add("get_set", n, s, idx=i, covers=(i == 0 and s == n))
        for i in [n, n + 1, -(n + 1), -(n + 2)]:
            add("set_bad", n, n, idx=i, covers=(i == n))
            add("set_bad", n, 2 * n + 2, idx=i)
        add("mem_rem", n, n, covers=True)
        add("del", n, n + 1, covers=True, extra=["--memory-leak-check"])
        add("iter", n, n, covers=True)
        add("mark", n, n, covers=True)
        add("show", n, n, covers=True)
        if n <= 2:      # length 3 exhausts the solver (recursion + element swaps through symbolic offsets)
            add("sort", n, n, covers=True, extra=["--unwindset", "Array_Sort_Part:%d" % (n + 1)])
        sort_modular(n)
        for m in range(0, 3):
            add("assign", n, n, m=m, covers=(m == 1))
        for m in range(0, nmax + 1):
            add("hash_cmp", n, n, m=m, covers=(m == n))
    return J


def _list_jobs(tier, prop):
    nmax = 5 if tier == "thorough" else 4     # List_At walks from either end depending on the half: length 4 is the first with an interior back-half index
    J = []
    L = ["src/Exception.c", "src/Iter.c", "src/Pointer.c", "stubs/throw.c"]
    F = {"push": ["List_Push", "List_Alloc", "List_Link"], "pop": ["List_Pop", "List_Unlink", "List_Free"],
         "push_at": ["List_Push_At", "List_At", "List_Link", "List_Alloc"], "pop_at": ["List_Pop_At", "List_At", "List_Unlink", "List_Free"],
         "get_set": ["List_Get", "List_Set", "List_At"], "set_bad": ["List_Set", "List_At"], "mem_rem": ["List_Mem", "List_Rem", "List_Unlink"],
         "resize": ["List_Resize", "List_Clear"], "del": ["List_Del", "List_Clear"], "concat": ["List_Concat", "List_Push"],
         "assign": ["List_Assign", "List_Clear", "List_Push"],
         "iter": ["List_Iter_Init", "List_Iter_Next", "List_Iter_Last", "List_Iter_Prev", "List_Iter_Type", "List_Len"],
         "hash_cmp": ["List_Hash", "List_Cmp"], "mark": ["List_Mark"], "show": ["List_Show"]}
    def add(op, n, idx=None, m=None, covers=False, extra=()):
        defs = ["N=%d" % n]
        name = "%s.List.%s.n%d" % (prop, op, n)
        if idx is not None:
            defs.append("IDX=%d" % idx); name += ".i%s" % (str(idx).replace("-", "m"))
        if m is not None:
            defs.append("M=%d" % m); name += ".m%d" % m
        J.append(Job(name, "C04", "K3", "List/k3.c", "h_" + op, F[op], link=L, defines=defs, replace_calls=["exception_throw:cv_throw"],
                     unwind=8, cbmc=["--unwindset", "cv_live_count.0:26", "--no-malloc-may-fail"] + list(extra), covers=covers,
                     group="List.%s" % op, also=["C05", "C11", "C12", "C19", "C09", "C10", "C06", "C01", "C14"], timeout=(1800 if tier == "thorough" else 300),
                     bound="List: length <= %d, every index in [-len-3, len+2]" % nmax,
                     case="len=%d%s%s" % (n, "" if idx is None else " index=%d" % idx, "" if m is None else " operand_len=%d" % m),
                     replay="seq_list.c",
                     assumptions=["element model (contracts/elem.h)", "calloc/free: cbmc built-in models, allocation failure not explored (--no-malloc-may-fail)",
                                  "header_init per its K1 contract (C19.header_init.k1)"]))
    for n in range(0, nmax + 1):
        big = (n == nmax)          # the largest length only for the index-walking operations (List_At walks from either end)
        if big:
            for i in range(-(n + 1), n + 2):
                add("push_at", n, idx=i); add("pop_at", n, idx=i)
            for i in range(-n, n):
                add("get_set", n, idx=i)
            add("iter", n); add("pop", n); add("push", n)
            continue
        add("push", n, covers=True); add("pop", n, covers=True)
        for i in range(-(n + 3), n + 3):
            add("push_at", n, idx=i, covers=(i == 0))
        for i in range(-(n + 2), n + 2):
            add("pop_at", n, idx=i, covers=(i == 0))
        for r in range(0, n + 3):
            add("resize", n, idx=r, covers=(r == 0))
        for m in range(0, 3):
            add("concat", n, m=m, covers=(m == 1))
            add("assign", n, m=m, covers=(m == 1))
        for i in range(-(n + 1), n + 1):
            add("get_set", n, idx=i, covers=(i == 0))
        for i in [n, n + 1, -(n + 1), -(n + 2)]:
            add("set_bad", n, idx=i, covers=(i == n))
        add("mem_rem", n, covers=True)
        add("del", n, covers=True, extra=["--memory-leak-check"])
        add("iter", n, covers=True)
        add("mark", n, covers=True)
        add("show", n, covers=True)
        for m in range(0, nmax + 1):
            add("hash_cmp", n, m=m, covers=(m == n))
    return J


def _tuple_jobs(tier, prop):
    nmax = 4 if tier == "thorough" else 3
    J = []
    L = ["src/Exception.c", "src/Iter.c", "src/Pointer.c", "stubs/throw.c"]
    F = {"push": ["Tuple_Push", "Tuple_Len"], "pop": ["Tuple_Pop"], "push_at": ["Tuple_Push_At"], "pop_at": ["Tuple_Pop_At"],
         "get_set": ["Tuple_Get", "Tuple_Set"], "set_bad": ["Tuple_Set"], "mem_rem": ["Tuple_Mem", "Tuple_Rem", "Tuple_Pop_At"],
         "resize": ["Tuple_Resize"], "del": ["Tuple_Del"], "concat": ["Tuple_Concat"], "assign": ["Tuple_Assign"],
         "iter": ["Tuple_Iter_Init", "Tuple_Iter_Next", "Tuple_Iter_Last", "Tuple_Iter_Prev", "Tuple_Len"],
         "hash_cmp": ["Tuple_Hash", "Tuple_Cmp"], "mark": ["Tuple_Mark"], "show": ["Tuple_Show"], "sort": ["Tuple_Sort_By", "Tuple_Sort_Part", "Tuple_Sort_Partition", "Tuple_Swap"],
         "sort_partition": ["Tuple_Sort_Partition", "Tuple_Swap"], "sort_part": ["Tuple_Sort_Part (partition and recursive calls cut by their contracts)"], "sort_by": ["Tuple_Sort_By"]}
    tbody = extract_function("src/Tuple.c", "Tuple_Sort_Part", "Tuple_Sort_Part_body")
    def add(op, n, idx=None, m=None, covers=False, heap=1, dup=0, group=None, extra=(), unwind=8, rng=None, rc=(), gen=None, defs2=()):
        defs = ["N=%d" % n] + list(defs2)
        name = "%s.Tuple.%s.n%d" % (prop, group or op, n)
        if rng is not None:
            defs += ["SL=%d" % rng[0], "SR=%d" % rng[1]]; name += ".r%d_%d" % rng
        if idx is not None:
            defs.append("IDX=%d" % idx); name += ".i%s" % (str(idx).replace("-", "m"))
        if m is not None:
            defs.append("M=%d" % m); name += ".m%d" % m
        if heap == 2:
            defs.append("HEAP=2"); name += ".embedded"
        elif not heap:
            defs.append("HEAP=0"); name += ".stack_" + op
        if dup:
            defs.append("DUP=1")
        J.append(Job(name, "C04", "K3", "Tuple/k3.c", "h_" + op, F[op], link=L, defines=defs, replace_calls=["exception_throw:cv_throw"] + list(rc), gen=gen,
                     unwind=unwind, cbmc=["--unwindset", "cv_live_count.0:26", "--no-malloc-may-fail"] + list(extra), covers=covers,
                     group="Tuple.%s" % (group or op), also=["C11", "C12", "C19", "C09", "C10", "C01", "C14"], timeout=400,
                     bound="Tuple: length <= %d, every index in [-len-2, len+1], heap and stack receivers" % nmax,
                     case="len=%d%s%s%s%s" % (n, "" if idx is None else " index=%d" % idx, "" if m is None else " operand_len=%d" % m, "" if heap else " stack receiver", " repeated item" if dup else ""),
                     replay="seq_tuple.c",
                     assumptions=["element model (contracts/elem.h)", "malloc/realloc/free: cbmc built-in models, allocation failure not explored (--no-malloc-may-fail)"]))
    for n in range(2, SORT_MAX + 1):
        for lo in range(0, n):
            for hi in range(lo + 1, n):
                add("sort_partition", n, covers=(lo == 0 and hi == n - 1), rng=(lo, hi))
                add("sort_part", n, covers=(lo == 0 and hi == n - 1), rng=(lo, hi), rc=["Tuple_Sort_Partition:cv_partition_stub", "Tuple_Sort_Part:cv_sort_part_stub"],
                    gen={"gen_sort_part.h": tbody}, defs2=["CV_SORT_BODY"])
        add("sort_by", n, covers=True, rc=["Tuple_Sort_Part:cv_sort_part_top"])
    for n in range(0, nmax + 1):
        add("push", n, covers=True); add("pop", n, covers=True)
        for i in range(-(n + 2), n + 2):
            add("push_at", n, idx=i, covers=(i == 0)); add("pop_at", n, idx=i, covers=(i == 0))
        for r in range(0, n + 2):
            add("resize", n, idx=r, covers=(r == 0))
        for m in range(0, 3):
            add("concat", n, m=m, covers=(m == 1)); add("assign", n, m=m, covers=(m == 1))
        for i in range(-(n + 1), n + 1):
            add("get_set", n, idx=i, covers=(i == 0))
        for i in [n, n + 1, -(n + 1), -(n + 2)]:
            add("set_bad", n, idx=i, covers=(i == n))
        add("mem_rem", n, covers=True)
        add("del", n, covers=True, extra=["--memory-leak-check"])
        add("iter", n, covers=True)
        add("mark", n, covers=True)
        if n >= 1:
            add("mark", n, heap=2, covers=True)      # a Tuple embedded in a container: nothing but its Mark instance reaches its items
        add("show", n, covers=True)
        if n >= 2:
            add("iter", n, dup=1, group="iter_dup")
        for m in range(0, nmax + 1):
            add("hash_cmp", n, m=m, covers=(m == n))
        if n <= (3 if tier == "thorough" else 2):
            add("sort", n, covers=True, extra=["--unwindset", "Tuple_Sort_Part:%d" % (n + 1)])
        # stack receivers: every reallocating operation must raise ValueError before touching anything (C19)
        if n >= 1:
            for op, kw in [("push", {}), ("pop", {}), ("push_at", {"idx": 0}), ("pop_at", {"idx": 0}), ("mem_rem", {}), ("resize", {"idx": 0}),
                           ("del", {}), ("concat", {"m": 1}), ("assign", {"m": 1})]:
                add(op, n, heap=0, covers=True, group="stack", **kw)
    return J
