from vdriver import Job

LEVEL = "proof"
TECHNIQUE = "CBMC harness contracts on the real File_* wrappers against a ghost typestate of stdio handles (assumed stdio contracts)"
LEVEL_TEXT = 'Complete (loop-free, full-domain) harness proofs of all File_* wrappers against a ghost typestate of stdio handles: representation invariant file == NULL or open, IOError and no stdio call on a closed File, exactly one fclose per open on sclose/del/with, arguments and results passed through unchanged.'
NOTE = "stdio contracts assumed (fopen/fclose/fread/...); byte-level round trip is libc's"
EXPLANATION = ("Every File_* wrapper of src/File.c runs on an arbitrary File object satisfying the representation invariant (file == NULL or an open "
               "handle), with stdio replaced by a ghost typestate whose functions assert 'open handle only' and return arbitrary results. "
               "Loop-free, inputs fully symbolic: complete proofs of the wrappers' contracts. Round-trip of the bytes themselves is libc's (assumed).")
TRUSTED = ["stdio contracts: fopen returns NULL or a fresh open handle; fclose closes even when it reports an error; data written is read back identical (libc)",
           "the file system"]
FUNCS = ["File_New", "File_Del", "File_Open", "File_Close", "File_Seek", "File_Tell", "File_Flush", "File_EOF", "File_Read", "File_Write",
         "File_Format_To", "File_Format_From", "File Start instance (with)"]

def jobs(tier):
    J = []
    for h in ["Seek", "Tell", "Flush", "EOF", "Read", "Write", "Format_To", "Format_From", "Close", "Del", "Open", "with"]:
        J.append(Job("C20." + h, "C20", "K2", "File/k2.c", "h_" + h, FUNCS, link=["src/Alloc.c", "src/Exception.c", "stubs/throw.c"],
                     replace_calls=["exception_throw:cv_throw"], unwind=12, defines=["CELLO_NSTRACE"], also=["C12"],
                     replay="C20_close.c", assumptions=["c_str on a String returns its buffer (C09/C16 dispatch obligation)"]))
    return J
