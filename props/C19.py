from vdriver import Job
from props import seqcases, C02 as _C02, C03 as _C03, C16 as _C16

LEVEL = "other"
TECHNIQUE = "CBMC contracts on header_init/alloc/dealloc/del (DFCC + harness proofs through the real Type.c lookup), non-heap receivers of String/Tuple mutators as exceptional postconditions"
LEVEL_TEXT = 'header_init and header by DFCC contract; alloc/alloc_raw/alloc_root, dealloc, del/del_raw/del_root, alloc_stack and static objects by harness proofs through the real Type.c for Int, String, Ref; element / key / value headers (type, Data) in every container harness (Array, List, Table, Tree) and for iterator results; stack Tuple and stack String receivers must raise ValueError before touching anything; run-time types carry Type/Heap and their name and size.'
NOTE = 'calloc/free allocator contract assumed; copy() and view results not under contract'
EXPLANATION = LEVEL_TEXT
TRUSTED = ["calloc returns NULL or a fresh zeroed block aligned to 8; free releases it (assumed allocator contract)",
           "set/rem(current(GC), p) register/delete p with the thread's collector (contracts discharged under C17/C06)"]

TYPES = [("Int", "Int"), ("String", "String"), ("Ref", "Ref"), ("Float", "Float")]   # types whose destructor deletes nothing else (Range_Del deletes its value through del)
FUNCS = ["header_init", "header", "alloc_by", "alloc", "alloc_raw", "alloc_root", "dealloc", "dealloc_raw", "del_by", "del", "del_raw", "del_root",
         "destruct", "macro alloc_stack", "type_of", "Type_Of", "size"]

def jobs(tier):
    J = []
    J.append(Job("C19.header_init.k1", "C19", "K1", "Alloc/k1_header.c", "h_header_init", ["header_init"], enforce="header_init"))
    J.append(Job("C19.header.k1", "C19", "K1", "Alloc/k1_header.c", "h_header", ["header"], enforce="header"))
    L = ["src/Type.c", "src/Num.c", "src/String.c", "src/Pointer.c", "src/Iter.c", "src/Exception.c", "src/GC.c", "stubs/throw.c"]
    types = TYPES if tier == "thorough" else TYPES[:3]
    for (t, st) in types:
        for h in ["alloc", "dealloc_heap", "dealloc_nonheap", "del", "stack", "static", "null"]:
            if h == "null" and t != "Int":
                continue
            J.append(Job("C19.%s.%s" % (h, t), "C19", "K2", "Alloc/k2.c", "h_" + h, FUNCS, link=L, defines=["TYPE_UNDER_TEST=%s" % t, "TSTRUCT=%s" % st],
                         replace_calls=["exception_throw:cv_throw"], unwind=20, group="C19.%s.k2" % h, also=["C12", "C06"], case="type %s" % t,
                         replay="C19_dealloc.c"))
    J += seqcases.array_jobs(tier, "C19")
    J += _C02.table_jobs(tier, "C19") + _C03.tree_jobs(tier, "C19")
    J += _C16.jobs(tier, only=["stack"], prefix="C19")
    return J
