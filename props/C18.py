import copy, re
from vdriver import Job

LEVEL = "other"
TECHNIQUE = "per-configuration re-verification (CBMC): the same contracts are discharged on the real sources compiled under each build configuration"
LEVEL_TEXT = ("A relational property over compile-time switches becomes: the same contracts - whose postconditions fix results as functions of the arguments - are discharged under the "
              "default build, CELLO_NDEBUG (checks compiled out, one-word headers), the method cache disabled (CELLO_CACHE defined) and CELLO_NGC. Two configurations that both satisfy a "
              "deterministic contract agree on every in-contract call of that function. Covered: Int/Float cmp, the six predicates, hash and assign of Int/Float, hash_data, memswap, the "
              "cmp/hash dispatch, the assign dispatcher, String assign/concat/resize (also with overlapping operands), type-class lookup for Int, Array and File, alloc/del of Int, and the in-range Array and List operations at length <= 2. CBMC checks the absence of undefined "
              "behaviour in these functions, which is what makes optimisation levels agree for them; compiler correctness is assumed.")
NOTE = "only the functions under contract listed in the evidence; workloads through other functions, optimisation levels and compiler correctness are not decided"
EXPLANATION = LEVEL_TEXT
TRUSTED = ["compiler correctness at every optimisation level for code free of undefined behaviour"]

CONFIGS = [("default", []), ("ndebug", ["CELLO_NDEBUG"]), ("nocache", ["CELLO_CACHE"]), ("ngc", ["CELLO_NGC"])]

def base_jobs(tier):
    from props import C08, C09, C10, C19, seqcases
    J = []
    J += [j for j in C09.jobs("quick") if re.search(r"C09\.(Int_Cmp|Float_Cmp|eq|neq|gt|lt|ge|le)\.k1$|C09\.dispatch\.cmp_(int|float|default)$", j.name)]
    J += [j for j in C10.jobs("quick") if re.search(r"C10\.(Int_Hash|Int_Assign|Float_Assign|hash_data)\.k1$|C10\.dispatch\.hash_(int|float|default)$|C10\.memswap\.len(0|9|12)$|C10\.assign\.k2$", j.name)]
    from props import C16
    J += [j for j in C16.jobs("quick") if re.search(r"C16\.String\.(assign|concat)\.a2\.b1$|C16\.String\.(assign_alias|concat_alias)\.a2\.alias[12]$|C16\.String\.resize\.a2\.to1$", j.name)]
    J += [j for j in C08.jobs("quick") if re.search(r"C08\.dispatch\.(Int|Array|File)$", j.name)]
    J += [j for j in C19.jobs("quick") if re.search(r"C19\.(alloc|del|dealloc_heap)\.Int$|C19\.header_init\.k1$", j.name)]
    def in_range(j):
        m = re.search(r"\.(Array|List)\.(push|pop|push_at|pop_at|get_set|resize|concat|iter|hash_cmp)\.n(\d)(?:\.s(\d))?(?:\.i(m?\d))?", j.name)
        if not m: return False
        cont, op, n, s, i = m.group(1), m.group(2), int(m.group(3)), m.group(4), m.group(5)
        if n > 2: return False
        if op == "pop" and n == 0: return False
        if i is not None:
            i = -int(i[1:]) if i.startswith("m") else int(i)
            if op in ("pop_at", "get_set") and not (-n <= i < n): return False          # in-range positive and negative indices
            if op == "push_at":
                if cont == "Array" and not (-(n + 1) <= i <= n): return False
                if cont == "List" and not (i == 0 or -n <= i < n): return False
        return True
    J += [j for j in seqcases.array_jobs("quick", "C04") if in_range(j)]
    return J

def jobs(tier):
    J = []
    cfgs = CONFIGS
    for cname, cdefs in cfgs:
        for j in base_jobs(tier):
            if cname == "ngc" and not re.search(r"C19\.|C09\.Int_Cmp|C10\.dispatch\.hash_int", j.name):
                continue      # CELLO_NGC only changes Alloc.c / GC.c / Thread.c: re-verify what touches them plus two sentinels
            if cname == "nocache" and not re.search(r"dispatch", j.name):
                continue      # the cache switch only changes Type.c lookups
            k = copy.copy(j)
            k.name = "C18.%s.%s" % (cname, j.name)
            k.prop = "C18"; k.own_all = True; k.config = list(cdefs); k.group = "%s.%s" % (cname, j.group); k.also = []
            k.case = "configuration %s: %s" % (cname, j.case or j.name)
            k.covers = False if (cname != "default" and j.kind == "K3") else j.covers
            J.append(k)
    return J
