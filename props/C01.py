from vdriver import Job
from props import gcjobs, seqcases, C02 as _C02, C03 as _C03

LEVEL = "other"
TECHNIQUE = "bounded inductive contract check (CBMC) on the real GC.c: one function per obligation set on an arbitrary robin-hood registry of enumerated capacity, callees that recurse or finalise cut by recording stubs"
LEVEL_TEXT = "The reachability property is decomposed into per-function contracts on the real GC.c, each checked on an arbitrary registry of capacity 3 (thorough 5): GC_Mark_Item marks a registered object, never clears a mark, and scans its contents exactly when it was registered and unmarked (so marking terminates on cycles and shared objects); GC_Recurse hands every word of a plain struct, or the Mark instance's elements, to the marker; every container Mark passes each element exactly once; GC_Mark marks and scans every root and traverses thread-local storage recursively; GC_Sweep spares every marked or root object. The composition (roots, TLS and stack words are marked-and-scanned; the relation is closed under 'holds a pointer to'; sweep spares marked) is a two-line induction over these machine-checked steps and is not mechanised."
NOTE = 'machine stack/registers really being the scanned region (GC_Mark_Stack) is not decided; recursion depth of marking on long chains not decided; registry capacity <= 5; objects <= 4 words'
EXPLANATION = LEVEL_TEXT
TRUSTED = []

def jobs(tier):
    return gcjobs.gc_jobs(tier, "C01") + seqcases.array_jobs(tier, "C01") + _C02.table_jobs(tier, "C01") + _C03.tree_jobs(tier, "C01")
