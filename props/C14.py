import re
from vdriver import Job

LEVEL = "other"
TECHNIQUE = "bounded contract check (CBMC) of the real print_to_with scanner against an independent tokenizer, one format string per obligation set over the property's grammar, sinks and libc formatting cut by contracts that tokenise whatever text they are handed (any grouping of literal text and specifications into sink calls is accepted)"
LEVEL_TEXT = ("What Cello adds to C formatting is the scanner and the sinks, and that is what is under contract: for each of an enumerated set of well-formed formats (literal runs, %%, "
              "specifications with flags / width / precision / length modifier and every conversion d i u o x X c s f F e E g G a A p and %$, at the very start, the very end and adjacent), "
              "with symbolic argument values and start position, the text handed to the sink - in whatever grouping into calls - is, concatenated, exactly the token sequence an independent tokenizer "
              "produces: every literal character, % for %%, and each specification verbatim, each paired with the next argument fetched through the accessor its conversion letter names (a long double "
              "under the L modifier); the returned position is start + one per literal character + the lengths the sink reports for the conversions; too few arguments raise FormatError; "
              "every read stays inside the format and every write inside the scratch buffer. String_Format_To (room for the text and its terminator, C16 harness) and File_Format_To "
              "(C20 harness) are the two sinks. That the characters equal printf's is libc's (assumed).")
NOTE = "libc v*printf semantics assumed; formats are an enumerated set, not all strings of the grammar; container show under contract for Array, List, Tuple, Table (capacity <= 3 (5)) and Tree (<= 4 nodes)"
EXPLANATION = LEVEL_TEXT
TRUSTED = ["libc vsnprintf/vsprintf/vfprintf write what printf writes for a specification and its value"]

CONV = {"d": "K_INT", "i": "K_INT", "u": "K_INT", "o": "K_INT", "x": "K_INT", "X": "K_INT", "c": "K_CHR", "s": "K_STR", "p": "K_PTR", "$": "K_SHOW"}
for ch in "fFeEgGaA":
    CONV[ch] = "K_FLT"

def tokenize(fmt):
    """independent tokenizer of the property's grammar (regular expression, not the scanner's loop)"""
    toks = []
    rx = re.compile(r"(?P<lit>[^%]+)|(?P<pct>%%)|(?P<spec>%[-+ #0]*[0-9]*(?:\.[0-9]+)?(?:hh|h|ll|l|L|z|j|t)?(?P<conv>[diuoxXcsfFeEgGaAp$]))")
    i = 0
    while i < len(fmt):
        m = rx.match(fmt, i)
        assert m, "ill-formed format %r" % fmt
        if m.group("lit"): toks.append(("K_LIT", m.group("lit")))
        elif m.group("pct"): toks.append(("K_PCT", "%%"))
        else: toks.append((CONV[m.group("conv")], m.group("spec")))
        i = m.end()
    return toks

def cstr(s):
    return '"' + s.replace("\\", "\\\\").replace('"', '\\"') + '"'

def header(fmt, given=None):
    toks = tokenize(fmt)
    argk = [k for k, _ in toks if k not in ("K_LIT", "K_PCT")]
    needed = len(argk)
    given = needed if given is None else given
    h = "#define FMT %s\n#define NPIECES %d\n#define NARGS_NEEDED %d\n#define NARGS_GIVEN %d\n" % (cstr(fmt), len(toks), needed, given)
    h += "enum { K_LIT_ = 0 };\n"
    h += "static const char* const piece_text[] = {%s};\n" % (", ".join(cstr(t) for _, t in toks) or '""')
    kinds = {"K_LIT": 0, "K_PCT": 1, "K_INT": 2, "K_FLT": 3, "K_STR": 4, "K_CHR": 5, "K_PTR": 6, "K_SHOW": 7}
    h += "static const int piece_kind[] = {%s};\n" % (", ".join(str(kinds[k]) for k, _ in toks) or "0")
    a = -1; idx = []
    for k, _ in toks:
        if k not in ("K_LIT", "K_PCT"): a += 1; idx.append(a)
        else: idx.append(0)
    h += "static const int piece_arg[] = {%s};\n" % (", ".join(map(str, idx)) or "0")
    h += "static const int arg_kind[] = {%s};\n" % (", ".join(str(kinds[k]) for k in (argk + ["K_INT"])[:max(given, 1)]))
    return h

FORMATS = ["", "plain text", "%%", "100%% sure", "%d", "%i items", "x=%5d;", "%-08.3lld|", "%+.2f", "%10.4e%%", "%s", "[%-10s]", "%c%c", "%d%d", "%d %s %f", "a%$b", "%$", "%$%$",
           "%p", "%x%X%o%u", "%lu-%hhd", "%G%a%A%F%E%g", "end%d", "%s%%%c", "%#x %05i", "%li", "%f",
           "% ld", "x=% 6ld;", "%- 6ld|", "% f", "% .2e", "%+05d", "%#o%#X", "%-+ #012.5lld", "%hd%hu", "%zu %jd %td", "%Lf", "%.0f%5.1g", "%-5c|", "%.3s",
           # literal text made of the letters that mean something inside a specification, right before and after specifications
           "%.2f Litres", "%g L%d", "Ll%dhL", "%sL l", "%eL%LfL", "hd%ldh", "z%c$"]

def jobs(tier, prefix="C14"):
    from props import seqcases
    from props import C02, C03
    J = seqcases.array_jobs(tier, "C14") + C02.table_jobs(tier, "C14") + C03.tree_jobs(tier, "C14")
    L = ["src/Exception.c", "src/Num.c", "src/String.c", "src/Pointer.c", "src/Iter.c", "stubs/throw.c", "stubs/libc_str.c"]
    fmts = FORMATS if tier == "thorough" else FORMATS
    for n, f in enumerate(fmts):
        variants = [(None, "")]
        need = len([k for k, _ in tokenize(f) if k not in ("K_LIT", "K_PCT")])
        if need >= 1:
            variants.append((need - 1, ".short"))
        for given, tag in variants:
            J.append(Job("%s.print.f%02d%s" % (prefix, n, tag), "C14", "K3", "Show/k3.c", "h_print", ["print_to_with", "format_to (contract)", "show_to (contract)"], link=L,
                         replace_calls=["exception_throw:cv_throw", "show_to:cv_show_to", "format_to:cv_format_to", "format_from:cv_format_from"], unwind=max(len(f) + 12, 24), gen={"gen_format.h": header(f, given)}, group="print.%s" % ("short" if tag else "full"),
                         also=["C12", "C15"], timeout=300, case="format %r with %s arguments" % (f, "all" if given is None else given), replay="C14_print.c", cbmc=["--no-malloc-may-fail"],
                         bound="%d enumerated formats over the property's grammar, argument values and start position symbolic" % len(fmts),
                         assumptions=["format_to / show_to are recording sinks here (String_Format_To: C16 harness, File_Format_To: C20 harness)", "libc strlen/strchr/memcpy reference models"]))
    return J
