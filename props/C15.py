from vdriver import Job
from props import C14 as _C14

LEVEL = "other"
TECHNIQUE = "bounded contract check (CBMC): String_Show composed with String_Look over an abstract character stream for every byte value; the numeric readers of the real scan_from_with against a sink that stores with the width the conversion names"
LEVEL_TEXT = ("String: for strings of length 0 and 1 with symbolic bytes (every value except NUL) the text String_Show writes is read back by String_Look into an equal string, consuming "
              "exactly what was written. Int and Float: the real scan_from_with runs with the reader's conversion against a libc model that stores with the width the conversion names, so the value "
              "read back must equal the value written over the whole int64 range, and for Float to within the printed precision. The real Int_Show / Float_Show are composed with the real Int_Look / Float_Look "
              "through the real print_to_with and scan_from_with (the writer's sink prints, and the reader's sink stores, with the width the conversion names), and print_to followed by scan_from with the same "
              "integer specification (d i hd hhd ld li lld jd u x o lu lx hu) gives back every value the specification's C type holds. What vsscanf/vfscanf do character by character is libc's (assumed).")
NOTE = "libc scanning assumed (LP64 widths); floating specifications are read with the C meaning of the reader's specification (%f is a float, %lf a double); String length <= 1 (per-character lemma; composition over longer strings is not machine-checked); the abstract stream stands for both a String and a File source"
EXPLANATION = LEVEL_TEXT
TRUSTED = ["libc vsscanf/vfscanf store with the width the conversion names and report the consumed length through %n"]

def jobs(tier):
    J = []
    for ls in range(0, 2):     # length 2 exhausts the solver's memory (symbolic-size realloc/strcat in String_Concat); the per-character lemma is length 1
        J.append(Job("C15.String.show_look.len%d" % ls, "C15", "K3", "String/k3_showlook.c", "h_show_look", ["String_Show", "String_Look", "String_Concat", "String_Clear"],
                     link=["src/Exception.c", "src/Iter.c", "src/Pointer.c", "stubs/throw.c", "stubs/libc_str.c"], defines=["LS=%d" % ls], replace_calls=["exception_throw:cv_throw"], unwind=ls + 6,
                     cbmc=["--no-malloc-may-fail", "--unwindset", "String_Look.0:%d" % (ls + 2)], group="String.show_look", timeout=600, case="string length %d" % ls, replay="C15_roundtrip.c", bound="strings of length <= 1 (every byte value): the per-character round-trip lemma; longer strings undecided (solver memory)"))
    L = ["src/Exception.c", "src/Num.c", "src/String.c", "src/Pointer.c", "src/Iter.c", "stubs/throw.c", "stubs/libc_str.c"]
    RC = ["exception_throw:cv_throw", "show_to:cv_show_to", "format_to:cv_format_to", "format_from:cv_format_from"]
    for h, fn in [("h_look_float", ["Float_Look", "scan_from_with"]), ("h_look_int", ["Int_Look (conversion %li)", "scan_from_with"])]:
        J.append(Job("C15.%s" % h[2:], "C15", "K3", "Show/k3.c", h, fn, link=L, replace_calls=RC, unwind=24, gen={"gen_format.h": _C14.header("%d")}, group="numeric.look",
                     cbmc=["--no-malloc-may-fail"], timeout=300, replay="C15_roundtrip.c"))
    L2 = [x for x in L if x != "src/Num.c"] + ["src/Hash.c"]
    for h, fn in [("h_show_look_int", ["Int_Show", "Int_Look", "print_to_with", "scan_from_with"]), ("h_show_look_float", ["Float_Show", "Float_Look", "print_to_with", "scan_from_with"])]:
        J.append(Job("C15.%s" % h[2:], "C15", "K3", "Show/k3.c", h, fn, link=L2, replace_calls=RC, unwind=24, defines=["CV_NUM_INLINE"], gen={"gen_format.h": _C14.header("%d")}, group="numeric.show_look",
                     cbmc=["--no-malloc-may-fail"], timeout=300, replay="C15_roundtrip.c"))
    I32, I16, I8, I64 = ("(-2147483647LL-1)", "2147483647LL"), ("-32768", "32767"), ("-128", "127"), ("(-9223372036854775807LL-1)", "9223372036854775807LL")
    PS = [("%d", I32), ("%i", I32), ("%hd", I16), ("%hhd", I8), ("%ld", I64), ("%li", I64), ("%lld", I64), ("%jd", I64), ("%u", ("0", "4294967295LL")), ("%x", ("0", "4294967295LL")),
          ("%lu", ("0", I64[1])), ("%lx", ("0", I64[1])), ("%hu", ("0", "65535")), ("%o", ("0", "4294967295LL"))]
    for n, (f, (lo, hi)) in enumerate(PS):
        J.append(Job("C15.print_scan.%s" % f[1:], "C15", "K3", "Show/k3.c", "h_print_scan", ["print_to_with", "scan_from_with"], link=L, replace_calls=RC, unwind=24,
                     defines=['PS_W="%s"' % f, 'PS_R="%s"' % f, "PS_LO=%s" % lo, "PS_HI=%s" % hi], gen={"gen_format.h": _C14.header("%d")}, group="numeric.print_scan",
                     cbmc=["--no-malloc-may-fail"], timeout=300, case="specification %s, values %s..%s" % (f, lo, hi), replay="C15_roundtrip.c"))
    return J
