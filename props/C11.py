from vdriver import Job
from props import seqcases, C02 as _C02, C03 as _C03

LEVEL = "other"
TECHNIQUE = "bounded inductive contract check (CBMC) on the real container operations over an element model with a finalisation ledger / exceptional postconditions"
LEVEL_TEXT = 'Cursor protocol of Array, List, Tuple and Table checked on arbitrary well-formed containers of bounded size: forward iteration yields element i at step i and ends with Terminal after len items, backward is the exact reverse, the cursor never leaves the allocation. Range/Slice/Zip/Filter/Map views are not under contract yet.'
NOTE = 'bounded sizes as in C02/C04; Tuple with a repeated item is a listed known finding'
EXPLANATION = LEVEL_TEXT
TRUSTED = []

def jobs(tier):
    return seqcases.array_jobs(tier, "C11") + _C02.table_jobs(tier, "C11") + _C03.tree_jobs(tier, "C11")
