from vdriver import Job
from props import seqcases, C02 as _C02, C03 as _C03

LEVEL = "other"
TECHNIQUE = "bounded inductive contract check (CBMC) on the real container operations over an element model with a finalisation ledger / exceptional postconditions"
LEVEL_TEXT = 'Cursor protocol of Array, List, Tuple, Table and Tree on arbitrary well-formed containers of bounded size (forward yields item i at step i and ends with Terminal after len items, backward is the exact reverse, the cursor never leaves the allocation), plus the views: Range arithmetic against ceil((stop-start)/|step|) with one concrete step per obligation set and symbolic bounds, Slice_Arg clamping for every int64 argument, Slice / Zip / Filter / Map over ghost underlying iterables of up to 4 elements.'
NOTE = 'bounded sizes; Tuple with a repeated item, Slice iteration ignoring stop and Zip backward iteration with unequal inputs are listed known findings; nesting of views not explored'
EXPLANATION = LEVEL_TEXT
TRUSTED = []

VL = ["src/Exception.c", "src/Tuple.c", "src/Num.c", "src/Pointer.c", "src/Function.c", "stubs/throw.c"]

def view_jobs(tier):
    J = []
    def add(name, h, defs, funcs, unwind=8, timeout=900, bound=None):
        J.append(Job("C11.view.%s" % name, "C11", "K3", "Iter/k3.c", h, funcs, link=VL, defines=defs, replace_calls=["exception_throw:cv_throw"], unwind=unwind,
                     group="view.%s" % name.split(".")[0], also=["C12"], timeout=timeout, case=" ".join(defs), replay="C11_views.c",
                     bound=bound or "views over abstract underlying iterables of <= 4 elements; Range: start/stop within +-2^32 (+-2^12 for |step| >= 3), one concrete step per obligation set",
                     assumptions=["underlying iterables are ghost models of the Iter/Len/Get classes (the cursor protocol of the real containers is checked separately)"]))
    RF = ["Range_Len", "Range_Iter_Init", "Range_Iter_Next", "Range_Iter_Last", "Range_Iter_Prev", "Range_Get"]
    steps = [1, 2, -1, -2] + ([3, -3, 4, -4, 5, -5, 7] if tier == "thorough" else [3, -3])
    for st in steps:
        add("range.step%s" % str(st).replace("-", "m"), "h_range", ["STEP=%d" % st, "RBITS=%d" % (32 if abs(st) <= 2 else 12 if abs(st) == 3 else 10)], RF)
    for st in [0, 1, -2]:
        add("range_empty.step%s" % str(st).replace("-", "m"), "h_range_empty", ["STEP=%d" % st], RF)
    add("slice_arg", "h_slice_arg", [], ["Slice_Arg"])
    nu = 4
    for (a, b, c) in [(0, 4, 1), (0, 2, 1), (1, 3, 1), (1, 4, 2), (0, 4, 3), (2, 2, 1), (0, 4, -1), (1, 3, -1), (0, 4, -2)]:
        add("slice_iter.%d_%d_%s" % (a, b, str(c).replace("-", "m")), "h_slice_iter", ["NU=%d" % nu, "SL_START=%d" % a, "SL_STOP=%d" % b, "SL_STEP=%d" % c],
            ["Slice_Iter_Init", "Slice_Iter_Next", "Slice_Len"], unwind=10)
    for (n1, n2) in [(0, 0), (2, 2), (3, 2), (2, 3), (1, 0)]:
        add("zip.%d_%d" % (n1, n2), "h_zip", ["NU=%d" % n1, "NU2=%d" % n2], ["Zip_Iter_Init", "Zip_Iter_Next", "Zip_Iter_Last", "Zip_Iter_Prev", "Zip_Len", "zip_stack"])
    for n in [0, 1, 3]:
        add("filter.%d" % n, "h_filter", ["NU=%d" % n], ["Filter_Iter_Init", "Filter_Iter_Next", "Filter_Iter_Last", "Filter_Iter_Prev"])
        add("map.%d" % n, "h_map", ["NU=%d" % n], ["Map_Iter_Init", "Map_Iter_Next", "Map_Iter_Last", "Map_Iter_Prev", "Map_Len"])
    return J

def jobs(tier):
    return view_jobs(tier) + seqcases.array_jobs(tier, "C11") + _C02.table_jobs(tier, "C11") + _C03.tree_jobs(tier, "C11")
