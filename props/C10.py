from vdriver import Job
from props import seqcases, C03 as _C03

LEVEL = "other"
TECHNIQUE = "CBMC code contracts (DFCC, loop contracts) on hash_data/memswap/Int/Float/String hash+assign; harness proofs through the real dispatch"
LEVEL_TEXT = 'DFCC + loop-contract proofs: hash_data reads exactly data[0,size) and assigns nothing for every size <= 4096, memswap exchanges two buffers (ghost-index invariant, z3 back end); Int/Float/String/Type hash and assign contracts; eq => equal hash through the real dispatch for Int and Float; container hash = XOR of element hashes (bounded lengths).'
NOTE = 'address-independence of hash_data checked only for lengths 0..2 (multiplier miter undecidable for the installed solvers); libc strlen assumed; assign dispatcher under contract (self-assignment, byte-copy frame); default hash also on a 12-byte type'
EXPLANATION = LEVEL_TEXT
TRUSTED = []

def jobs(tier):
    J = []
    J.append(Job("C10.hash_data.k1", "C10", "K1", "Hash/k1_hash_data.c", "h_hash_data", ["hash_data"], enforce="hash_data",
                 loop_contracts=True, overlay=("src/Hash.c", "Hash.ovl"), cbmc=["--slice-formula"],
                 bound="size <= 4096 (is_fresh bound)"))
    J.append(Job("C10.memswap.k1", "C10", "K1", "Assign/k1_memswap.c", "h_memswap", ["memswap"], enforce="memswap",
                 loop_contracts=True, overlay=("src/Assign.c", "Assign.ovl"), cbmc=["--z3"], bound="size <= 4096 (is_fresh bound)"))
    J.append(Job("C10.Int_Hash.k1", "C10", "K1", "Num/k1.c", "h_Int_Hash", ["Int_Hash"], enforce="Int_Hash", replace=["c_int"], link=["src/Alloc.c"]))
    J.append(Job("C10.Int_Assign.k1", "C10", "K1", "Num/k1.c", "h_Int_Assign", ["Int_Assign"], enforce="Int_Assign", replace=["c_int"], link=["src/Alloc.c"]))
    J.append(Job("C10.Float_Assign.k1", "C10", "K1", "Num/k1.c", "h_Float_Assign", ["Float_Assign"], enforce="Float_Assign", replace=["c_float"], link=["src/Alloc.c"]))
    J.append(Job("C10.String_Hash.k1", "C10", "K1", "String/k1_hash.c", "h_String_Hash", ["String_Hash"], enforce="String_Hash",
                 replace=["strlen", "hash_data"], link=["src/Alloc.c"],
                 assumptions=["libc strlen (assumed contract: number of bytes before the first NUL)"]))
    J.append(Job("C10.Type_Hash.k1", "C10", "K1", "Type/k1_hash.c", "h_Type_Hash", ["Type_Hash", "Type_Builtin_Name"], enforce="Type_Hash",
                 replace=["strlen", "hash_data"], link=["src/Alloc.c"]))
    DL = ["src/Type.c", "src/Num.c", "src/Alloc.c", "src/Exception.c", "src/Cmp.c", "src/Assign.c", "src/Pointer.c", "stubs/throw.c"]
    for h in ["h_hash_int", "h_hash_float"]:
        J.append(Job("C10.dispatch.%s" % h[2:], "C10", "K2", "Hash/dispatch.c", h,
                     ["hash", "eq", "cmp", "assign", "Int_Hash", "Float_Hash", "Int_Assign", "Float_Assign", "Type_Instance", "Type_Scan"],
                     link=DL, replace_calls=["exception_throw:cv_throw"], unwind=12, group="C10.dispatch.k2",
                     replay="C10_float_hash.c" if "float" in h else "C10_int_hash.c"))
    J.append(Job("C10.dispatch.hash_default", "C10", "K2", "Hash/dispatch.c", "h_hash_default", ["hash"],
                 link=DL, replace_calls=["exception_throw:cv_throw", "hash_data:cv_hash_data"], unwind=12, group="C10.dispatch.k2"))
    for n in ([0, 1, 7, 8, 9, 12, 16, 17, 21, 24] if tier != "thorough" else list(range(0, 34))):
        J.append(Job("C10.memswap.len%d" % n, "C10", "K3", "Assign/k3_memswap.c", "h_memswap_len", ["memswap"], defines=["LEN=%d" % n],
                     link=["src/Exception.c", "stubs/throw.c"], replace_calls=["exception_throw:cv_throw"], unwind=n + 3, group="C10.memswap.bounded",
                     bound="memswap stand-in without loop contract: lengths %s" % ("0..33" if tier == "thorough" else "0,1,7,8,9,12,16,17,21,24"), case="len=%d" % n))
    J.append(Job("C10.assign.k2", "C10", "K2", "Assign/k2_assign.c", "h_assign", ["assign"], link=["src/Exception.c", "stubs/throw.c"], replace_calls=["exception_throw:cv_throw"],
                 unwind=20, also=["C04", "C12"], group="C10.assign.k2", replay="seq_array.c", cbmc=["--no-malloc-may-fail"],
                 assumptions=["instance(self, Assign) is cut (C08 dispatch); the type's own Assign method is under its own contract, which requires source != target"]))
    J.append(Job("C10.copy.k2", "C10", "K2", "Alloc/k2_copy.c", "h_copy", ["copy", "alloc_by", "new_with", "construct_with"], link=["src/Exception.c", "src/Num.c", "src/Pointer.c", "stubs/throw.c"],
                 replace_calls=["exception_throw:cv_throw"], unwind=4, also=["C19"], group="C10.copy.k2",
                 assumptions=["alloc (calloc model) and assign are cut by their contracts (C19 alloc, C10 Int_Assign)"]))
    J.append(Job("C10.Ref.k2", "C10", "K2", "Pointer/k2.c", "h_ref", ["Ref_Assign", "Ref_Ref", "Ref_Deref", "deref", "ref"], link=["src/Exception.c", "src/Num.c", "stubs/throw.c"],
                 replace_calls=["exception_throw:cv_throw"], unwind=4, also=["C05"], group="C10.Ref.k2"))
    lens = [0, 1, 2]   # longer buffers need multiplier equivalence, which no installed back end decides (DESIGN.md)
    for n in lens:
        J.append(Job("C10.hash_data.lemma.len%d" % n, "C10", "K3", "Hash/lemma_hash_data.c", "h_hash_data_lemma", ["hash_data"],
                     defines=["LEN=%d" % n], unwind=n + 2, group="C10.hash_data.lemma", bound="buffer length <= 2 (enumerated; longer lengths undecided: multiplier miter)", case="len=%d" % n))
    J += seqcases.array_jobs(tier, "C10")
    J += _C03.tree_jobs(tier, "C10")
    return J
