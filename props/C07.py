from vdriver import Job

LEVEL = "proof"
TECHNIQUE = "CBMC harness contracts on the real exception-record functions (arbitrary record) + construct lemmas over the real try/catch macro text; setjmp/longjmp cut by noreturn stubs"
LEVEL_TEXT = 'Complete harness proofs (no bound on depth 0..2048 or on the record contents) of the contracts of exception_try/try_end/try_fail/throw/catch on an arbitrary exception record, plus the two construct lemmas over the real try/catch macro expansion (body completes / body threw). The structural induction over program trees is a lemma over these machine-checked steps.'
NOTE = 'C semantics of setjmp/longjmp/exit (cut by noreturn stubs); induction over program trees not mechanised; filters of 0..3 entries; per-thread record lookup (Thread.c) not decided'
EXPLANATION = ("Contracts of exception_try/try_end/try_fail/throw/catch are asserted on an arbitrary (havoced) exception record of the real "
               "struct, with every depth 0..2048; the two construct lemmas run the real macro expansion with setjmp returning 0 (body completes, "
               "body summarised by the induction hypothesis) and 1 (body threw). Structural induction over program trees is the lemma over these "
               "machine-checked steps and is not mechanised.")
TRUSTED = ["C semantics of setjmp/longjmp/exit/abort (cut by recording noreturn stubs)",
           "well-nestedness: buffers[depth-1] points into a live frame (that two open activations of one block own different buffers is checked: construct.reentrant)",
           "structural induction over try/throw/catch program trees (lemma over the checked steps, not mechanised)",
           "current(Exception) returns the calling thread's record (Thread.c TLS, not decided: C13)"]

FUNCS = ["exception_try", "exception_try_end", "exception_try_fail", "exception_throw", "exception_catch", "Exception_Buffer",
         "Exception_Error", "Exception_Len", "macro try", "macro catch", "macro throw"]

def jobs(tier):
    J = []
    L = ["src/Alloc.c", "src/Iter.c", "stubs/throw.c"]
    def job(name, h, defs=(), replay=None, case=None):
        return Job("C07." + name, "C07", "K2", "Exception/k2.c", h, FUNCS, link=L, unwind=26, cbmc=["--z3"],
                   defines=["CELLO_NSTRACE"] + list(defs), replay=replay, case=case,
                   assumptions=["dispatch cut: len()/instance(filter, Iter) on a Tuple are Tuple's own instances (C08 all-pairs); eq on exception kinds is identity (C07.eq_kinds + C09.Type_Cmp.k1)"])
    for h in ["h_try", "h_try_overflow", "h_try_end", "h_try_fail", "h_throw", "h_eq_kinds"]:
        J.append(job(h[2:], h))
    for n in [0, 1, 2, 3]:
        J.append(job("catch.filter%d" % n, "h_catch", ["NFILTER=%d" % n], replay="C07_nested.c", case="filter with %d entries" % n))
    J.append(job("construct.normal", "h_construct_normal"))
    J.append(job("construct.reentrant", "h_construct_reentrant", replay="C07_nested.c"))
    J.append(job("construct.throw", "h_construct_throw", replay="C07_nested.c"))
    return J
