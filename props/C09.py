from vdriver import Job
from props import seqcases, C03 as _C03

LEVEL = "other"
TRUSTED = []
LEVEL_TEXT = "DFCC contract proofs over the full value range for Int_Cmp, Float_Cmp (NaN excluded), String_Cmp, Type_Cmp and the six predicates; harness proofs through the real dispatch for Int, Float and plain structs (byte-wise, TypeError for different types); Array, List and Tuple cmp as bounded lexicographic checks (lengths <= 3/4). The scalar part is proof-level, the container part bounded, hence 'other'."
NOTE = 'libc strcmp assumed to be the unsigned-byte lexicographic order; String order also checked against its definition on texts of length <= 2 with symbolic bytes (independent of how it is computed); default cmp also on a 12-byte type; Table cmp not under contract'
TECHNIQUE = "CBMC code contracts (DFCC) on the real Int_Cmp/Float_Cmp/predicates"

EXPLANATION = LEVEL_TEXT

def jobs(tier):
    J = []
    J.append(Job("C09.Int_Cmp.k1", "C09", "K1", "Num/k1.c", "h_Int_Cmp", ["Int_Cmp"], enforce="Int_Cmp",
                 replace=["c_int"], link=["src/Alloc.c"], replay="C09_int_cmp.c",
                 assumptions=["c_int contract (value of an Int object) - discharged by C09.dispatch"]))
    J.append(Job("C09.Float_Cmp.k1", "C09", "K1", "Num/k1.c", "h_Float_Cmp", ["Float_Cmp"], enforce="Float_Cmp",
                 replace=["c_float"], link=["src/Alloc.c"], replay="C09_float_cmp.c"))
    for f in ["eq", "neq", "gt", "lt", "ge", "le"]:
        J.append(Job("C09.%s.k1" % f, "C09", "K1", "Cmp/k1.c", "h_" + f, [f], enforce=f, replace=["cmp"], group="C09.predicates.k1",
                     assumptions=["cmp returns some int (contract: arbitrary value) - the predicates are proved for every value"]))
    J.append(Job("C09.String_Cmp.k1", "C09", "K1", "String/k1_cmp.c", "h_String_Cmp", ["String_Cmp", "String_C_Str"], enforce="String_Cmp",
                 replace=["c_str", "strcmp"], link=["src/Alloc.c"],
                 assumptions=["libc strcmp is the unsigned-byte lexicographic order (assumed contract: some function of the two buffers)",
                              "c_str contract (buffer of a String object) - discharged by C09.dispatch.cmp_string"]))
    from props import C16
    J += C16.jobs(tier, only=["cmp"], prefix="C09")      # String_Cmp on concrete-length texts with symbolic bytes against the definition of the order (independent of how it is computed)
    J.append(Job("C09.Type_Cmp.k1", "C09", "K1", "Type/k1_cmp.c", "h_Type_Cmp", ["Type_Cmp", "Type_Builtin_Name"], enforce="Type_Cmp",
                 replace=["cast", "strcmp"], link=["src/Alloc.c"],
                 assumptions=["cast contract (identity on an object of the requested type) - discharged by C08.cast"]))
    DL = ["src/Type.c", "src/Num.c", "src/Alloc.c", "src/Exception.c", "stubs/throw.c"]
    for h in ["h_cmp_int", "h_cmp_float", "h_cmp_default", "h_cmp_default_mismatch"]:
        J.append(Job("C09.dispatch.%s" % h[2:], "C09", "K2", "Cmp/dispatch.c", h, ["cmp", "eq", "neq", "lt", "gt", "le", "ge", "Type_Instance", "Type_Scan", "Type_Of", "c_int", "c_float", "Int_Cmp", "Float_Cmp"],
                     link=DL + ["src/Pointer.c"], also=["C12"], replace_calls=["exception_throw:cv_throw"], unwind=16, group="C09.dispatch.k2",
                     replay="C09_int_cmp.c" if "int" in h else "C09_float_cmp.c"))
    J += seqcases.array_jobs(tier, "C09")
    J += _C03.tree_jobs(tier, "C09")
    return J
