from vdriver import Job

LEVEL = "proof"
EXPLANATION = "cmp is decided per function against its mathematical order"
TRUSTED = []
LEVEL_TEXT = "placeholder"
NOTE = "placeholder"
TECHNIQUE = "CBMC code contracts (DFCC) on the real Int_Cmp/Float_Cmp/predicates"

def jobs(tier):
    J = []
    J.append(Job("C09.Int_Cmp.k1", "C09", "K1", "Num/k1.c", "h_Int_Cmp", ["Int_Cmp"], enforce="Int_Cmp",
                 replace=["c_int"], link=["src/Alloc.c"], replay="C09_int_cmp.c",
                 assumptions=["c_int contract (value of an Int object) - discharged by C09.dispatch"]))
    J.append(Job("C09.Float_Cmp.k1", "C09", "K1", "Num/k1.c", "h_Float_Cmp", ["Float_Cmp"], enforce="Float_Cmp",
                 replace=["c_float"], link=["src/Alloc.c"], replay="C09_float_cmp.c"))
    return J
