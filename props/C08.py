import os, re
from vdriver import Job, REPO

LEVEL = "other"
TECHNIQUE = "CBMC harness proofs of the real Type.c lookup functions against an independent ghost scan, for every (static type, class) pair; concretely bounded loops with unwinding assertions"
LEVEL_TEXT = 'Complete harness proofs for every (static type, class) pair of the real library objects against an independent ghost scan (cold, warm, reverse order, cache-slot invariant), ClassError on missing classes/members; run-time types built by the real Type_New are checked for instance lists of up to 2 entries over class names that are prefixes of each other (bounded part).'
NOTE = 'CBMC 6.11; concurrent first lookups not decided; run-time types beyond 2 instances not explored; cast between a static and a run-time type of the same name raises ValueError; 256-instance limit not exercised'
EXPLANATION = LEVEL_TEXT
TRUSTED = ["concurrent first lookups are not decided (schedules)"]

FUNCS = ["Type_Scan", "Type_Instance", "Type_Implements", "Type_Method_At_Offset", "Type_Implements_Method_At_Offset", "Type_Of",
         "instance", "type_instance", "implements", "type_implements", "method_at_offset", "type_method_at_offset", "type_of"]

CLASSES = ["Doc", "Help", "Cast", "Size", "Alloc", "New", "Copy", "Assign", "Swap", "Cmp", "Hash", "Len", "Iter", "Push", "Concat", "Get",
           "Sort", "Resize", "C_Str", "C_Int", "C_Float", "Stream", "Pointer", "Call", "Format", "Show", "Current", "Start", "Lock", "Mark"]

def static_objects():
    objs = []
    src = os.path.join(REPO, "src")
    for f in sorted(os.listdir(src)):
        if f.endswith(".c"):
            for m in re.finditer(r"^var ([A-Za-z_][A-Za-z_0-9]*) = Cello(?:Empty|Struct|Object)?\(", open(os.path.join(src, f)).read(), re.M):
                objs.append((m.group(1), "src/" + f))
    return objs

def gen_header(class_side):
    lines = ["/* generated */"]
    for o in class_side:
        lines.append("extern var %s;" % o)
    lines.append("#define CV_NCLASSES %d" % len(class_side))
    lines.append("#define cv_classes ((var[]){%s})" % ", ".join(class_side))
    return "\n".join(lines) + "\n"

def jobs(tier):
    objs = static_objects()
    names = [o for o, _ in objs]
    files = sorted(set(f for _, f in objs))
    missing = [c for c in CLASSES if c not in names]
    J = []
    if tier == "thorough":
        class_side = names
    else:
        class_side = [c for c in CLASSES if c in names] + [n for n in ["Int", "Type", "Terminal", "KeyError", "_", "Tuple"] if n in names]
    hdr = gen_header(class_side)
    us = ["--unwindset", "h_dispatch.0:%d,h_dispatch.1:%d" % (len(class_side) + 2, len(class_side) + 2)]
    if tier == "thorough":
        us += ["--object-bits", "14"]      # one string object per class name and lookup: more than 4096 addressed objects with every class on the class side
    link = [f for f in files if f != "src/Type.c"] + ["stubs/throw.c"]
    for t in names:
        J.append(Job("C08.dispatch.%s" % t, "C08", "K2", "Type/dispatch.c", "h_dispatch", FUNCS, link=link, defines=["TYPE_UNDER_TEST=%s" % t] + (["CV_REVERSE_PASS"] if tier == "thorough" else []), covers=False,
                     replace_calls=["exception_throw:cv_throw"], unwind=24, gen={"gen_objects.h": hdr}, group="C08.dispatch.k2", also=["C19"], cbmc=us,
                     case="type %s x %d class objects, cold/warm/reverse" % (t, len(class_side)), timeout=900, replay="C08_lookup.c"))
    for t in (names if tier == "thorough" else ["Int", "Array", "File", "Type", "KeyError", "Ref"]):
        J.append(Job("C08.method_missing.%s" % t, "C08", "K2", "Type/dispatch.c", "h_method_missing", FUNCS, link=link, defines=["TYPE_UNDER_TEST=%s" % t],
                     replace_calls=["exception_throw:cv_throw"], unwind=24, gen={"gen_objects.h": hdr}, group="C08.method_missing.k2", also=["C12"],
                     case="type %s" % t, timeout=900))
    for t in ["Int", "Array", "Type"]:
        J.append(Job("C08.cast.%s" % t, "C08", "K2", "Type/dispatch.c", "h_cast", ["cast", "Type_Of", "type_of"], link=link, defines=["TYPE_UNDER_TEST=%s" % t],
                     replace_calls=["exception_throw:cv_throw"], unwind=24, gen={"gen_objects.h": hdr}, group="C08.cast.k2", also=["C12", "C19"], case="type %s" % t, timeout=600))
    # run-time types: every instance list of <= NMAX entries over three class names that are prefixes of each other
    import itertools
    nmax = 2
    quick_combos = [(), ("CA", "CAB"), ("CAB", "CA"), ("CB", "CB")]
    RL = ["src/Alloc.c", "src/Tuple.c", "src/Num.c", "src/String.c", "src/Iter.c", "src/Exception.c", "src/Cmp.c", "stubs/throw.c"]
    for n in range(0, nmax + 1):
        for combo in itertools.product(["CA", "CAB", "CB"], repeat=n):
            if tier != "thorough" and combo not in quick_combos:
                continue
            defs = ["NINST=%d" % n] + ["K%d=%s" % (i, k) for i, k in enumerate(combo)]
            J.append(Job("C08.runtime.%d.%s" % (n, "_".join(combo) or "none"), "C08", "K3", "Type/runtime.c", "h_runtime", FUNCS + ["Type_New", "Type_Alloc", "Type_Builtin_Name", "Type_Builtin_Size", "size"],
                         link=RL, defines=defs, replace_calls=["exception_throw:cv_throw"], unwind=12, group="C08.runtime.k3", also=["C19", "C12"], replay="C08_lookup.c",
                         bound="run-time types with <= %d instances, class names from {A, AB, B, BA}" % nmax, case="instances of classes %s" % (list(combo),), timeout=300))
    return J
