from vdriver import Job

LEVEL = "other"
TECHNIQUE = "bounded inductive contract check (CBMC) on the real Tree.c over every red-black shape up to a node bound, with the colour/parent packing accessors replaced by a two-field model whose own contracts are discharged separately"
LEVEL_TEXT = ("Every red-black shape (with colouring) of up to 6 nodes (thorough 8; insertion also on every 7-node shape) is emitted by an enumerator that is validated on every run (each shape must satisfy the "
              "red-black predicate as the first assertion of its case, and the number of shapes per size must equal an independent dynamic-programming count); on each shape "
              "set runs for every present key and every gap, rem and get for every present key and a gap, plus full forward/backward iteration and clear-and-refill, with symbolic "
              "values. After each operation the tree must again be a valid red-black tree with the right bindings. Rank keys lose no generality because control flow depends on keys only "
              "through the sign of cmp. Node counts above the bound are not decided, hence not a proof.")
NOTE = "element model contracts; typed node-pool model of calloc/free; the four packing accessors are checked separately (C03.accessors) for 2-aligned pointers; rank-key symmetry argument"
EXPLANATION = LEVEL_TEXT
TRUSTED = ["rank keys: control flow depends on keys only through sign(cmp) (symmetry argument, not mechanised)"]

# ---- enumeration of red-black trees: (color, left, right) with black-height bookkeeping ----
def rb_trees(n, bh, root_black_only):
    """all RB subtrees with exactly n nodes and black height bh (nil counts 1); yields nested tuples or None"""
    if n == 0:
        if bh == 1:
            yield None
        return
    # black root: children have black height bh-1
    if bh >= 2:
        for nl in range(0, n):
            for l in rb_trees(nl, bh - 1, False):
                for r in rb_trees(n - 1 - nl, bh - 1, False):
                    yield ("B", l, r)
    # red root: children black-rooted (or nil) with black height bh
    if not root_black_only:
        for nl in range(0, n):
            for l in rb_trees(nl, bh, True):
                for r in rb_trees(n - 1 - nl, bh, True):
                    yield ("R", l, r)

def all_shapes(n):
    out = []
    for bh in range(1, n + 3):
        out += list(rb_trees(n, bh, True))
    return out

def count_dp(nmax):
    """independent count: B[n][h] black-rooted, R[n][h] red-rooted subtrees with n nodes and black height h"""
    B = [[0] * (nmax + 3) for _ in range(nmax + 1)]; R = [[0] * (nmax + 3) for _ in range(nmax + 1)]
    NIL = lambda n, h: 1 if (n == 0 and h == 1) else 0
    for n in range(1, nmax + 1):
        for h in range(1, nmax + 3):
            b = 0; r = 0
            for nl in range(0, n):
                nr = n - 1 - nl
                if h >= 2:
                    L = NIL(nl, h - 1) + (B[nl][h - 1] + R[nl][h - 1] if nl else 0)
                    Rr = NIL(nr, h - 1) + (B[nr][h - 1] + R[nr][h - 1] if nr else 0)
                    b += L * Rr
                L = NIL(nl, h) + (B[nl][h] if nl else 0)
                Rr = NIL(nr, h) + (B[nr][h] if nr else 0)
                r += L * Rr
            B[n][h] = b; R[n][h] = r
    return [sum(B[n]) for n in range(nmax + 1)]

def emit(shape):
    """flatten into arrays; keys = 2*rank in Cello's orientation (larger keys to the left)"""
    nodes = []
    def walk(tr, parent):
        if tr is None:
            return -1
        i = len(nodes); nodes.append([tr[0], -1, -1, parent, 0])
        nodes[i][1] = walk(tr[1], i); nodes[i][2] = walk(tr[2], i)
        return i
    root = walk(shape, -1)
    order = []
    def inorder(i):
        if i < 0: return
        inorder(nodes[i][1]); order.append(i); inorder(nodes[i][2])
    inorder(root)
    n = len(nodes)
    for rank, i in enumerate(order):         # left-to-right = decreasing keys
        nodes[i][4] = 2 * (n - rank)
    arr = lambda f: ", ".join(str(f(x)) for x in nodes) if nodes else "0"
    h = "#define SH_N %d\n#define SH_ROOT %d\n" % (n, max(root, 0))
    h += "static const int sh_left[] = {%s};\nstatic const int sh_right[] = {%s};\nstatic const int sh_parent[] = {%s};\n" % (arr(lambda x: x[1]), arr(lambda x: x[2]), arr(lambda x: x[3]))
    h += "static const int sh_red[] = {%s};\nstatic const long sh_key[] = {%s};\n" % (arr(lambda x: 1 if x[0] == "R" else 0), arr(lambda x: x[4]))
    return h, [x[4] for x in nodes]

RC_ASSIGN = ["Tree_Set:cv_tree_set_rec"]
RC = ["exception_throw:cv_throw", "Tree_Get_Parent:cv_get_parent", "Tree_Set_Parent:cv_set_parent", "Tree_Set_Color:cv_set_color", "Tree_Get_Color:cv_get_color"]
FUNCS = ["Tree_Set", "Tree_Set_Fix", "Tree_Rem", "Tree_Rem_Fix", "Tree_Rotate_Left", "Tree_Rotate_Right", "Tree_Replace", "Tree_Get", "Tree_Mem", "Tree_Maximum",
         "Tree_Sibling", "Tree_Uncle", "Tree_Grandparent", "Tree_Iter_Init", "Tree_Iter_Next", "Tree_Iter_Last", "Tree_Iter_Prev", "Tree_Clear", "Tree_Clear_Entry",
         "Tree_Resize", "Tree_Mark", "Tree_Hash", "Tree_Cmp", "Tree_Assign", "Tree_Alloc", "Tree_Left", "Tree_Right", "Tree_Key", "Tree_Val", "Tree_Len"]

def jobs(tier, only_ops=None, prefix="C03", nmax_quick=6):
    nmax = 8 if tier == "thorough" else nmax_quick
    J = []
    L = ["src/Exception.c", "src/Iter.c", "stubs/throw.c"]
    # one more node for insertion only (quick tier of C03 itself): recolouring that travels upward twice needs a 7-node tree (seed C03-set-fix-uncle-not-red)
    extra = 1 if (tier != "thorough" and not only_ops and prefix == "C03") else 0
    counts = count_dp(nmax + extra)
    sid = 0
    if not only_ops:
        J.append(Job("%s.accessors.k2" % prefix, "C03", "K2", "Tree/accessors.c", "h_accessors",
                     ["Tree_Get_Parent", "Tree_Set_Parent", "Tree_Get_Color", "Tree_Set_Color", "Tree_Set_Red", "Tree_Set_Black", "Tree_Is_Red", "Tree_Is_Black", "Tree_Left", "Tree_Right"],
                     link=["src/Exception.c", "stubs/throw.c"], replace_calls=["exception_throw:cv_throw"], unwind=4,
                     assumptions=["calloc results are at least 2-aligned"]))
    for n in range(0, nmax + 1 + extra):
        set_only = n > nmax
        shapes = all_shapes(n) if n else [None]
        if n and len(shapes) != counts[n]:
            J.append(Job("%s.enumerator_mismatch.n%d" % (prefix, n), "C03", "K3", "Tree/nonexistent.c", "h", []))   # exits 2: coverage cannot be claimed
        for sh in shapes:
            hdr, keys = emit(sh)
            sid += 1
            def add(op, key=None, covers=False, mop=None):
                if only_ops and op not in only_ops:
                    return
                if set_only and op != "set":
                    return
                defs = [] if key is None else ["OPKEY=%d" % key]
                if mop is not None:
                    defs.append("MOP=%d" % mop)
                J.append(Job("%s.%s.shape%d.n%d%s%s" % (prefix, op, sid, n, "" if key is None else ".k%d" % key, "" if mop is None else ".m%d" % mop), "C03", "K3", "Tree/k3.c", "h_" + op, FUNCS, link=L,
                             defines=defs, replace_calls=RC + (RC_ASSIGN if op == "assign" else []), unwind=2 * n + 8, gen={"gen_shape.h": hdr}, covers=covers, group="Tree.%s" % op,
                             also=["C05", "C11", "C12", "C19", "C01", "C06", "C09", "C10"], timeout=300, cbmc=["--unwindset", "calloc.0:%d" % (n + 4)],
                             bound="Tree: every red-black shape with <= %d nodes (%d shapes), rank keys, operand = every present key and every gap" % (nmax, sum(counts[1:nmax + 1]) + 1),
                             case="shape %d (%d nodes) %s" % (sid, n, "" if key is None else "operand key %d" % key), replay="tree_search.c",
                             assumptions=["element model (contracts/elem.h, light ledger)", "calloc/free: typed node-pool model (assumed allocator contract)",
                                          "colour/parent accessors replaced by the two-field model (discharged by C03.accessors.k1)"]))
            first = True
            for k in range(1, 2 * n + 2):
                add("set", k, covers=first and k == 1)
            for k in sorted(keys) + [1]:
                add("rem", k, covers=(k == 1))
            for k in (sorted(keys)[:1] + [1] if tier != "thorough" else sorted(keys) + [1]):
                add("get", k, covers=(k == 1))
            add("iter", covers=True)
            add("mark", covers=True)
            if n <= 4:
                add("show", covers=True)
            if n <= 3:
                for mop in range(0, 3):
                    add("hash_cmp", None, covers=(mop == n), mop=mop)
                    add("assign", None, covers=(mop == 1), mop=mop)
            add("clear", 1, covers=True)
    return J


TREE_OPS_FOR = {"C14": ["show"], "C09": ["hash_cmp"], "C10": ["hash_cmp"], "C01": ["mark"], "C06": ["clear"], "C05": ["set", "rem", "clear", "assign"], "C11": ["iter"], "C12": ["rem", "get"], "C19": ["get", "iter"]}

def tree_jobs(tier, prop):
    # the properties that share the Tree harness take the shapes up to 5 nodes in the quick tier (C03 itself: 6)
    # C11: backward iteration needs a left child whose right child has a right child - 6 nodes (seed C11-tree-iter-prev-single-step)
    return jobs(tier, only_ops=TREE_OPS_FOR[prop], prefix=prop + ".Tree", nmax_quick=(6 if prop == "C11" else 5))
