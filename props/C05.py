from vdriver import Job
from props import seqcases, C02 as _C02, C03 as _C03

LEVEL = "other"
TECHNIQUE = "bounded inductive contract check (CBMC) on the real container operations over an element model with a finalisation ledger / exceptional postconditions"
LEVEL_TEXT = 'The C02/C03/C04 bounded inductive harnesses with a finalisation ledger in the element model (every constructed element holds a token; assign onto zeroed memory issues it, destruct retires it, tokens travel with the bytes): after every Array, List, Table and Tree operation every contained element is live and held once, removal / replacement / truncation / clear / delete finalise exactly the elements they drop, once each, and internal moves (growth, shrink, rehash, robin-hood displacement, rotation, predecessor copy) construct and finalise nothing; assign between containers is deep. Bounded by the container sizes of C02/C03/C04.'
NOTE = 'element model = a type with constructor, assignment and destructor owning a resource; Box sharing by shallow Box_Assign is outside the model; Tuple owns nothing and is excluded'
EXPLANATION = LEVEL_TEXT
TRUSTED = []

def jobs(tier):
    return seqcases.array_jobs(tier, "C05") + _C02.table_jobs(tier, "C05") + _C03.tree_jobs(tier, "C05")
