from vdriver import Job
from props import seqcases, C02 as _C02, C03 as _C03

LEVEL = "other"
TECHNIQUE = "bounded inductive contract check (CBMC) on the real container operations over an element model with a finalisation ledger / exceptional postconditions"
LEVEL_TEXT = 'The C02/C03/C04 bounded inductive harnesses with a finalisation ledger in the element model (every constructed element holds a token; assign onto zeroed memory issues it, destruct retires it, tokens travel with the bytes): after every Array, List, Table and Tree operation every contained element is live and held once, removal / replacement / truncation / clear / delete finalise exactly the elements they drop, once each, and internal moves (growth, shrink, rehash, robin-hood displacement, rotation, predecessor copy) construct and finalise nothing; assign between containers is deep. Bounded by the container sizes of C02/C03/C04.'
NOTE = 'element model = a type with constructor, assignment and destructor owning a resource; Box sharing by shallow Box_Assign is outside the model; Tuple owns nothing and is excluded'
EXPLANATION = LEVEL_TEXT
TRUSTED = []

def jobs(tier):
    box = [Job("C05.Box.k2", "C05", "K2", "Pointer/k2.c", "h_box", ["Box_Del", "Box_Assign", "Box_Ref", "Box_Deref", "Box_New"], link=["src/Exception.c", "src/Num.c", "stubs/throw.c"],
               replace_calls=["exception_throw:cv_throw"], unwind=4, group="Box.k2", assumptions=["del(pointee) hands the pointee to the collector (GC_Rem, C06)"])]
    return box + seqcases.array_jobs(tier, "C05") + _C02.table_jobs(tier, "C05") + _C03.tree_jobs(tier, "C05")
