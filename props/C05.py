from vdriver import Job
from props import seqcases, C02 as _C02

LEVEL = "other"
TECHNIQUE = "bounded inductive contract check (CBMC) on the real container operations over an element model with a finalisation ledger / exceptional postconditions"
LEVEL_TEXT = "placeholder"
NOTE = "placeholder"
EXPLANATION = "K3"
TRUSTED = []

def jobs(tier):
    return seqcases.array_jobs(tier, "C05") + _C02.table_jobs(tier, "C05")
