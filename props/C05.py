from vdriver import Job
from props import seqcases, C02 as _C02, C03 as _C03

LEVEL = "other"
TECHNIQUE = "bounded inductive contract check (CBMC) on the real container operations over an element model with a finalisation ledger / exceptional postconditions"
LEVEL_TEXT = 'The same bounded inductive harnesses as C02/C04 with a finalisation ledger in the element model: every contained element is live, held once, finalised exactly once on removal/replacement/clear/delete, and never by an internal move; copies are deep. Bounded by the container sizes of C02/C04; Tree not yet under contract.'
NOTE = 'element model = a type with constructor, assignment and destructor owning a resource (ledger tokens); Box sharing by shallow assignment is outside the model'
EXPLANATION = LEVEL_TEXT
TRUSTED = []

def jobs(tier):
    return seqcases.array_jobs(tier, "C05") + _C02.table_jobs(tier, "C05") + _C03.tree_jobs(tier, "C05")
