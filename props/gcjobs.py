"""obligation sets on src/GC.c shared by C17 (registry), C06 (finalisation) and C01 (reachability)"""
from vdriver import Job

L = ["src/Exception.c", "src/Type.c", "src/Num.c", "src/Array.c", "src/Table.c", "src/Pointer.c", "src/Iter.c", "src/String.c", "src/File.c", "src/Function.c", "stubs/throw.c"]
STACK = [(r"GC_Mark_Stack\.", "the machine stack and registers really are the region scanned by GC_Mark_Stack (setjmp register flush, frame layout): not decided")]

SPEC = {
 # name: (harness, defines, replace_calls, functions, owners, unwind-extra, remove_bodies)
 "set_ptr":  ("h_set_ptr", [], [], ["GC_Set_Ptr", "GC_Probe", "GC_Hash"], ["C17"]),
 "mem_ptr":  ("h_mem_ptr", [], [], ["GC_Mem_Ptr", "GC_Mem"], ["C17"]),
 "rem_ptr":  ("h_rem_ptr", [], [], ["GC_Rem_Ptr"], ["C17", "C06"]),
 "mark_item": ("h_mark_item", ["MARKS=1"], ["GC_Recurse:cv_recurse"], ["GC_Mark_Item"], ["C01"]),
 "recurse":  ("h_recurse", [], ["GC_Mark_Item:cv_mark_item"], ["GC_Recurse", "GC_Mark_And_Recurse"], ["C01"]),
 "mark":     ("h_mark", [], ["GC_Recurse:cv_recurse", "mark:cv_tls_mark"], ["GC_Mark"], ["C01"]),
 "sweep":    ("h_sweep", ["MARKS=1"], ["GC_Resize_Less:cv_resize_less"], ["GC_Sweep"], ["C01", "C06", "C17"]),
 "sweep_owner": ("h_sweep_owner", ["MARKS=1"], ["GC_Resize_Less:cv_resize_less"], ["GC_Sweep", "GC_Rem", "GC_Rem_Ptr"], ["C06"]),
 "sweep_owner_cut": ("h_sweep_owner_cut", ["MARKS=1", "CV_REENTER_CUT"], ["GC_Resize_Less:cv_resize_less"], ["GC_Sweep", "del (cut by the contract of GC_Rem_Ptr)"], ["C06"]),
 "gc_set":   ("h_gc_set", [], ["GC_Resize_More:cv_resize_more", "GC_Mark:cv_mark_stub", "GC_Sweep:cv_sweep_stub"], ["GC_Set"], ["C17", "C01"]),
 "gc_rem":   ("h_gc_rem", [], ["GC_Resize_Less:cv_resize_less"], ["GC_Rem", "GC_Rem_Ptr"], ["C06", "C17"]),
 "gc_del":   ("h_gc_del", [], ["GC_Resize_Less:cv_resize_less", "rem:cv_tls_rem"], ["GC_Del", "GC_Sweep"], ["C06"]),
}

def gc_jobs(tier, prop):
    J = []
    sizes = [1, 3, 5] if tier == "thorough" else [1, 3]
    for ns in sizes:
        for name, (h, defs, rc, funcs, owners) in SPEC.items():
            if prop not in owners:
                continue
            if name in ("recurse",) and ns != sizes[0]:
                continue
            if name == "sweep_owner":
                continue          # re-entrant GC_Rem inside a sweep: no result within 10 min at capacity 3 (undecided, see DESIGN.md)
            if ns == 5 and name in ("sweep", "gc_del", "sweep_owner_cut"):
                continue          # GC_Sweep at capacity 5 does not finish within 15 minutes (nested compaction loops over symbolic slots)
            if ns == 1 and name not in ("set_ptr", "mem_ptr", "gc_set", "recurse"):
                continue          # a capacity-1 registry is always empty at rest
            J.append(Job("%s.GC.%s.ns%d" % (prop, name, ns), owners[0], "K3", "GC/k3.c", h, funcs, link=L, defines=["NS=%d" % ns] + defs,
                         replace_calls=["exception_throw:cv_throw"] + rc, unwind=2 * ns + 4, group="GC.%s" % name, also=owners[1:], timeout=900,
                         remove_bodies=(["GC_Mark_Stack"] if name == "mark" else []), ignore=(STACK if name == "mark" else []),
                         bound="collector registry: capacity %s with fully symbolic contents; pointers from a 64-cell address pool (every residue pattern modulo capacities <= 53)" % sizes,
                         case="capacity %d" % ns, replay="C01_tls.c" if name == "mark" else "C06_gc.c",
                         assumptions=["destruct/dealloc on a managed object are recording sinks here (their contracts: C19 dealloc, C05 element destructors)",
                                      "calloc/realloc/free: typed pool model of the slot array and the pending list"]))
    if prop == "C06":
        J.append(Job("C06.GC.rem_ptr_empty", "C06", "K3", "GC/k3.c", "h_rem_ptr_empty", ["GC_Rem_Ptr"], link=L, defines=["NS=1"], replace_calls=["exception_throw:cv_throw"], unwind=6,
                     group="GC.rem_ptr", timeout=600, replay="C06_gc.c", case="registry of capacity 0 with a pending list"))
    if prop == "C17":
        for (o, n) in ([(3, 5), (5, 11), (5, 1), (1, 5)] if tier == "thorough" else [(3, 5), (1, 5)]):
            J.append(Job("C17.GC.rehash.%dto%d" % (o, n), "C17", "K3", "GC/k3.c", "h_rehash", ["GC_Rehash"], link=L, defines=["NS=%d" % o, "NEWSIZE=%d" % n],
                         replace_calls=["exception_throw:cv_throw", "GC_Set_Ptr:cv_set_ptr_rec"], unwind=14, group="GC.rehash", also=["C06"], timeout=600,
                         case="rehash %d -> %d" % (o, n), bound="rehash over the set_ptr contract, capacities 1,3,5 -> 1,5,11"))
        J.append(Job("C17.GC.probe", "C17", "K2", "GC/k3.c", "h_probe", ["GC_Probe"], link=L, defines=["NS=1"], replace_calls=["exception_throw:cv_throw"], unwind=4,
                     group="GC.probe", timeout=600, bound="every capacity up to 2^40"))
        J.append(Job("C17.GC.policy", "C17", "K3", "GC/k3.c", "h_policy", ["GC_Ideal_Size", "GC_Resize_More", "GC_Resize_Less"], link=L, defines=["NS=1"],
                     replace_calls=["exception_throw:cv_throw", "GC_Rehash:cv_rehash_stub"], unwind=123, group="GC.policy", timeout=600, bound="item counts 0..120"))
    return J
