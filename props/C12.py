import re
from vdriver import Job
from props import seqcases, C02 as _C02, C03 as _C03

LEVEL = "other"
TECHNIQUE = "bounded inductive contract check (CBMC) on the real container operations over an element model with a finalisation ledger / exceptional postconditions"
LEVEL_TEXT = 'Exceptional postconditions inside the C02/C03/C04/C08/C09/C16/C19/C20 harnesses: every failing call in the enumerated domain (indices one past either end and further on both sides, pop from empty, absent key or element, closed File, unimplemented class or empty member, different plain types, non-heap receiver, absent substring) must reach the noreturn throw model with the documented exception object and with the receiver equal to its snapshot, and must not also return normally.'
NOTE = "exception_throw is noreturn (C07); OutOfMemoryError excluded (environment); bounded container sizes; wrong-typed keys/values through the real cast are not exercised (cast is the element model's contract)"
EXPLANATION = LEVEL_TEXT
TRUSTED = []

def jobs(tier):
    import copy
    from props import C08, C09, C19, C20, C16
    J = seqcases.array_jobs(tier, "C12") + _C02.table_jobs(tier, "C12") + _C03.tree_jobs(tier, "C12")
    extra = [j for j in C08.jobs(tier) if "method_missing" in j.name]
    extra += [j for j in C09.jobs(tier) if "mismatch" in j.name]
    extra += [j for j in C19.jobs(tier) if re.search(r"C19\.(dealloc_nonheap|null|stack|static)\.", j.name)]
    extra += C20.jobs(tier)
    extra += [j for j in C16.jobs(tier) if 'mem_rem' in j.name or 'stack' in j.name]
    for j in extra:
        j = copy.copy(j); j.name = "C12." + j.name; J.append(j)
    return J
