from vdriver import Job
from props import seqcases

LEVEL = "other"
TECHNIQUE = "bounded inductive contract check (CBMC) on the real container operations over an element model with a finalisation ledger / exceptional postconditions"
LEVEL_TEXT = "placeholder"
NOTE = "placeholder"
EXPLANATION = "K3"
TRUSTED = []

def jobs(tier):
    return seqcases.array_jobs(tier, "C12")
