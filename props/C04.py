from vdriver import Job
from props import seqcases

LEVEL = "other"
TECHNIQUE = "bounded inductive contract check (CBMC): one real operation on an arbitrary well-formed container of enumerated size with symbolic contents, postcondition on the whole abstract sequence"
LEVEL_TEXT = 'Bounded inductive contract check: every operation of Array, List and Tuple runs on an arbitrary well-formed container of each length 0..3 (thorough 0..4), each capacity the growth policy yields and each index in and around the valid range, with symbolic element values; postconditions are stated on the whole abstract sequence. Sort is decided monolithically to length 2 (Tuple 3 in the thorough tier) and modularly to length 4: the partition contract on every range, the sort of every range with the partition and the recursive calls cut by their contracts (induction on the range length), and the composition. Lengths above the bounds are not decided.'
NOTE = 'CBMC 6.11; element model contracts; cbmc malloc/realloc/free models with allocation failure excluded; header_init by its K1 contract; sort: monolithic to length 2 (Tuple 3 thorough), modular (partition contract, induction over the range length with the recursive calls cut by the function\'s own contract, composition) to length 4; the inductive step runs on the text of *_Sort_Part extracted mechanically from /repo on every run with only the name in its definition line changed'
EXPLANATION = LEVEL_TEXT
TRUSTED = ["well-founded induction on the range length for *_Sort_Part (the stub asserts the decrease; the induction principle itself is not mechanised)"]

def jobs(tier):
    return seqcases.array_jobs(tier, "C04")
