from vdriver import Job
from props import seqcases

LEVEL = "other"
TECHNIQUE = "bounded inductive contract check (CBMC): one real operation on an arbitrary well-formed container of enumerated size with symbolic contents, postcondition on the whole abstract sequence"
LEVEL_TEXT = "placeholder"
NOTE = "placeholder"
EXPLANATION = "K3"
TRUSTED = []

def jobs(tier):
    return seqcases.array_jobs(tier, "C04")
