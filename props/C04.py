from vdriver import Job
from props import seqcases

LEVEL = "other"
TECHNIQUE = "bounded inductive contract check (CBMC): one real operation on an arbitrary well-formed container of enumerated size with symbolic contents, postcondition on the whole abstract sequence"
LEVEL_TEXT = 'Bounded inductive contract check: every operation of Array, List and Tuple runs on an arbitrary well-formed container of each length 0..3 (thorough 0..4), each capacity the growth policy yields and each index in and around the valid range, with symbolic element values; postconditions are stated on the whole abstract sequence. Lengths above the bound and sort beyond length 2-3 are not decided.'
NOTE = 'CBMC 6.11; element model contracts; cbmc malloc/realloc/free models with allocation failure excluded; header_init by its K1 contract; Array sort not decided (solver limit), Tuple sort to length 2 (3 thorough)'
EXPLANATION = LEVEL_TEXT
TRUSTED = []

def jobs(tier):
    return seqcases.array_jobs(tier, "C04")
