import os, re
from vdriver import Job, REPO

LEVEL = "other"
TECHNIQUE = "bounded inductive contract check (CBMC): one real Table operation on an arbitrary robin-hood table of enumerated capacity with symbolic contents and an uninterpreted hash; rehash proved modularly through the set_move contract"
LEVEL_TEXT = 'Bounded inductive contract check: for an arbitrary well-formed robin-hood table of capacity 1, 3 (quick) and 5 (thorough) with fully symbolic occupancy, keys, values and stored homes, one real Table operation is run by CBMC and the representation invariant plus the change of the whole abstract map (operand key and an arbitrary other key) are asserted; hashes are uninterpreted so keys collide arbitrarily; rehash is proved modularly over the set_move contract. Induction over operations makes the result independent of history length; the capacity bound remains, so this is not counted as a proof.'
NOTE = "CBMC 6.11; element model contracts for assign/destruct/eq/hash (discharged for Int under C09/C10); typed slot-array allocator model; narrow uninterpreted hash justified by a use-site scan; capacities above 5 not explored; Table_Get's pointer-range test relies on a flat address space"
EXPLANATION = LEVEL_TEXT
TRUSTED = ["narrow uninterpreted hash: the hash is consumed only as hash(key) % nslots in Table.c (use-site scan on every run)"]

FLAT = [(r"Table_Get\.pointer\.1 ::|Table_Get\.pointer_arithmetic\.\d+ :: pointer relation", "flat address space: Table_Get's 'is the key inside the slot array' test compares unrelated pointers (implementation-defined, relied on by the code; not decided)")]

def hash_use_scan():
    """every use of hash( in Table.c outside Table_Hash is followed by % t->nslots"""
    src = open(os.path.join(REPO, "src", "Table.c")).read()
    body = re.sub(r"static uint64_t Table_Hash\(var self\) \{.*?\n\}\n", "", src, flags=re.S)
    body = "\n".join(l for l in body.splitlines() if not l.lstrip().startswith('"'))
    uses = re.findall(r"[^_A-Za-z]hash\(([^()]*)\)([^;]*);", body)
    return all(re.match(r"\s*%\s*t->nslots", rest) for _, rest in uses) and len(uses) >= 4

TABLE_OPS_FOR = {
    "C05": ["set_move", "set_move_moving", "rem", "clear", "del", "rehash", "assign"],
    "C11": ["iter"],
    "C12": ["lookup", "rem", "resize_request"],
    "C19": ["lookup", "lookup_own", "iter"],
    "C01": ["mark"],
    "C14": ["show"],
    "C06": ["del", "clear"],
}

def table_jobs(tier, prop):
    J = jobs(tier)
    ops = TABLE_OPS_FOR.get(prop)
    if ops is not None:
        J = [j for j in J if j.group.split(".")[1] in ops]
    for j in J:
        j.name = j.name.replace("C02.", prop + ".Table.", 1) if prop != "C02" else j.name
    return J

def jobs(tier):
    J = []
    L = ["src/Exception.c", "src/Iter.c", "stubs/throw.c"]
    sizes = [1, 3, 5] if tier == "thorough" else [1, 3]
    scan_ok = hash_use_scan()
    def add(name, h, ns, funcs, defs=(), rc=(), unwind=None, timeout=1500, covers=True, extra=(), safety=True):
        J.append(Job("C02.%s.ns%d" % (name, ns), "C02", "K3", "Table/k3.c", h, funcs, link=L, defines=["NS=%d" % ns] + list(defs),
                     replace_calls=["exception_throw:cv_throw"] + list(rc), unwind=unwind or (ns + 2), cbmc=list(extra), covers=covers,
                     safety=safety, group="Table.%s" % name, also=["C05", "C11", "C12", "C19", "C01", "C06"], timeout=timeout, ignore=FLAT,
                     bound="Table: capacity %s with fully symbolic contents (occupancy, keys, values, homes), keys colliding arbitrarily (uninterpreted hash); rehash 3->5, 5->11, 5->1 over the set_move contract" % sizes,
                     case="capacity %d" % ns, replay="table_search.c",
                     assumptions=["element model (contracts/elem.h, light ledger)", "calloc/free: typed slot-array pool model (assumed allocator contract)",
                                  "narrow uninterpreted hash (use-site scan %s)" % ("passed" if scan_ok else "FAILED")]))
    for ns in sizes:
        add("set_move", "h_set_move", ns, ["Table_Set_Move", "Table_Probe", "Table_Key_Hash", "Table_Key", "Table_Val", "Table_Step", "Table_Swapspace_Key"])
        add("set_move_moving", "h_set_move_moving", ns, ["Table_Set_Move"])
        add("rem", "h_rem", ns, ["Table_Rem", "Table_Probe"], rc=["Table_Resize_Less:cv_resize_less"])
        add("clear", "h_clear", ns, ["Table_Resize", "Table_Clear"])
        add("del", "h_del", ns, ["Table_Del"])
        add("mark", "h_mark", ns, ["Table_Mark"])
        add("show", "h_show", ns, ["Table_Show"], unwind=24)
    add("rem", "h_rem", 0, ["Table_Rem"], rc=["Table_Resize_Less:cv_resize_less"])      # rem on a table emptied by resize(t, 0): KeyError, not a division by zero
    for ns in [0] + sizes:
        # capacity 0: Table_Get compares the key pointer with a NULL slot array on every path; with cbmc's pointer checks on, everything
        # behind that (ignored) failure stays undecided, so this one case runs with the arithmetic/bounds checks only
        add("lookup", "h_lookup", ns, ["Table_Get", "Table_Mem", "Table_Len", "Table_Key_Type", "Table_Val_Type"], unwind=ns + 2, safety=(ns != 0),
            extra=([] if ns else ["--no-pointer-check", "--no-pointer-primitive-check"]))
        add("iter", "h_iter", ns, ["Table_Iter_Init", "Table_Iter_Next", "Table_Iter_Last", "Table_Iter_Prev"], defs=["GUARD"], unwind=ns + 3)
    for ns in sizes[1:]:
        add("lookup_own", "h_lookup_own", ns, ["Table_Get"], unwind=ns + 2)
    add("emptied", "h_emptied", 0, ["Table_Set", "Table_Rehash", "Table_Set_Move", "Table_Mem", "Table_Iter_Init"], rc=["Table_Resize_More:cv_resize_more_stub"], unwind=4)
    add("set_compose", "h_set_compose", 3, ["Table_Set"], rc=["Table_Set_Move:cv_set_move_stub", "Table_Resize_More:cv_resize_more_stub"], unwind=5)
    for (o, n) in ([(3, 5), (3, 1), (5, 11), (5, 1), (1, 5)] if tier == "thorough" else [(3, 5), (3, 1), (1, 5)]):
        add("rehash.%dto%d" % (o, n), "h_rehash", o, ["Table_Rehash"], defs=["NEWSIZE=%d" % n], rc=["Table_Set_Move:cv_set_move_rec"], unwind=14)
    for mop in [0, 1, 2]:
        add("assign.m%d" % mop, "h_assign", 3, ["Table_Assign", "Table_Clear"], defs=["MOP=%d" % mop], rc=["Table_Set_Move:cv_set_move_asg"], unwind=14)
    add("policy", "h_policy", 1, ["Table_Ideal_Size", "Table_Resize_More", "Table_Resize_Less"], rc=["Table_Rehash:cv_rehash_stub"], unwind=123)
    add("probe", "h_probe", 1, ["Table_Probe"])
    add("resize_request", "h_resize_request", 1, ["Table_Resize", "Table_Ideal_Size"], rc=["Table_Rehash:cv_rehash_stub"], unwind=123)
    if not scan_ok:
        J.append(Job("C02.hash_use_scan", "C02", "K3", "Table/nonexistent.c", "h", []))   # turns into an ERROR (extraction break)
    return J
