/* noreturn model of exception_throw (assumption discharged under C07: both branches of the real
 * function end in longjmp or exit). */
#include "include/Cello.h"
#include "contracts/common.h"
var cv_thrown;
int cv_throws;
var cv_throw(var obj, const char* fmt, var args) {
  cv_thrown = obj;
  cv_throws++;
  cv_on_throw(obj);
  __CPROVER_assume(0);
  return NULL;
}
