/* reference models of the libc string functions used by Cello (assumed contracts: this IS what libc is taken to do).
 * Plain loops constant-fold in symex far better than cbmc's built-in models. */
#include <stddef.h>
int strcmp(const char* a, const char* b) {
  size_t i = 0;
  while (a[i] != 0 && a[i] == b[i]) { i++; }
  return (int)(unsigned char)a[i] - (int)(unsigned char)b[i];
}
size_t strlen(const char* s) {
  size_t i = 0;
  while (s[i] != 0) { i++; }
  return i;
}
