/* reference models of the libc string functions used by Cello (assumed contracts: this IS what libc is taken to do).
 * Plain loops constant-fold in symex far better than cbmc's built-in models. */
#include <stddef.h>
int strcmp(const char* a, const char* b) {
  size_t i = 0;
  while (a[i] != 0 && a[i] == b[i]) { i++; }
  return (int)(unsigned char)a[i] - (int)(unsigned char)b[i];
}
size_t strlen(const char* s) {
  size_t i = 0;
  while (s[i] != 0) { i++; }
  return i;
}
/* C library precondition: the objects copied between do not overlap (7.24.2.3, 7.24.3.1) */
static void cv_no_overlap(const char* dst, size_t dn, const char* src, size_t sn, const char* what) {
  int ov = __CPROVER_same_object(dst, src) && !(__CPROVER_POINTER_OFFSET(dst) + dn <= __CPROVER_POINTER_OFFSET(src) || __CPROVER_POINTER_OFFSET(src) + sn <= __CPROVER_POINTER_OFFSET(dst));
  __CPROVER_assert(!ov, "[C16] strcpy / strcat: source and destination do not overlap (C library precondition)");
  __CPROVER_assume(!ov);
}
char* strcpy(char* dst, const char* src) { size_t l = 0; while (src[l] != 0) l++; cv_no_overlap(dst, l + 1, src, l + 1, "strcpy"); size_t i = 0; while (src[i] != 0) { dst[i] = src[i]; i++; } dst[i] = 0; return dst; }
char* strcat(char* dst, const char* src) { size_t n = 0; while (dst[n] != 0) { n++; } size_t l = 0; while (src[l] != 0) l++; cv_no_overlap(dst, n + l + 1, src, l + 1, "strcat"); size_t i = 0; while (src[i] != 0) { dst[n + i] = src[i]; i++; } dst[n + i] = 0; return dst; }
char* strstr(const char* h, const char* n) {
  if (n[0] == 0) return (char*)h;
  for (size_t i = 0; h[i] != 0; i++) {
    size_t j = 0;
    while (n[j] != 0 && h[i + j] == n[j]) { j++; }
    if (n[j] == 0) return (char*)(h + i);
  }
  return (char*)0;
}
char* strchr(const char* s, int c) { size_t i = 0; while (1) { if (s[i] == (char)c) return (char*)(s + i); if (s[i] == 0) return (char*)0; i++; } }
void* memchr(const void* s, int c, size_t n) { const unsigned char* p = s; for (size_t i = 0; i < n; i++) { if (p[i] == (unsigned char)c) return (void*)(p + i); } return NULL; }
