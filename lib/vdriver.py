#!/usr/bin/env python3
"""Driver for contract-based verification of orangeduck/Cello with CBMC.

A *job* is one obligation set: one translation unit made of a real /repo/src file
(#included, never copied by hand), the contracts and a proof harness, pushed through
goto-cc -> goto-instrument (DFCC contract instrumentation for kind K1) -> cbmc.
See /verif/DESIGN.md section 2.
"""
import concurrent.futures as cf
import json, os, re, resource, shutil, subprocess, sys, tempfile, time, hashlib

VERIF = os.path.dirname(os.path.dirname(os.path.abspath(__file__)))
REPO = os.environ.get("CELLO_REPO", "/repo")
NPROC = int(os.environ.get("VERIF_JOBS", "16"))
MEM_KB = 10 * 1024 * 1024

# undefined-behaviour checks only; --conversion-check is left out on purpose: it also flags the
# well-defined modular signed->unsigned conversions Cello uses for hashing
SAFETY = ["--bounds-check", "--pointer-check", "--signed-overflow-check",
          "--pointer-overflow-check", "--div-by-zero-check", "--undefined-shift-check"]


class Job:
    """One obligation set.

    kind     K1 (DFCC contract proof), K2 (complete harness proof, concretely bounded loops),
             K3 (bounded inductive contract check)
    harness  path under /verif/harness of the TU (it #includes the real repo source)
    entry    harness entry function
    enforce  K1: function whose contract is enforced
    replace  K1: callees replaced by their contracts
    """

    def __init__(self, name, prop, kind, harness, entry, functions, enforce=None, replace=(),
                 loop_contracts=False, link=(), defines=(), cbmc=(), unwind=None,
                 replace_calls=(), remove_bodies=(), timeout=600, covers=True, bound=None,
                 assumptions=(), replay=None, also=(), safety=True, overlay=None,
                 nondet_static=False, group=None, config=(), solver=None, case=None, gen=None, ignore=()):
        self.name = name
        self.prop = prop
        self.kind = kind
        self.harness = harness
        self.entry = entry
        self.functions = list(functions)
        self.enforce = enforce
        self.replace = list(replace)
        self.loop_contracts = loop_contracts
        self.link = list(link)
        self.defines = list(defines)
        self.cbmc = list(cbmc)
        self.unwind = unwind
        self.replace_calls = list(replace_calls)
        self.remove_bodies = list(remove_bodies)
        self.timeout = timeout
        self.covers = covers
        self.bound = bound
        self.assumptions = list(assumptions)
        self.replay = replay
        self.also = list(also)          # other properties that own tagged obligations here
        self.safety = safety
        self.overlay = overlay          # (repo source, overlay file) for injected loop contracts
        self.nondet_static = nondet_static
        self.group = group or name
        self.config = list(config)      # build configuration defines (C18)
        self.solver = solver
        self.case = case                # free-form description of the enumerated case
        self.gen = dict(gen or {})      # generated files (name -> content) placed on the include path
        self.ignore = list(ignore)      # [(regex on 'name :: description', assumption text)]: obligations not decided, by stated assumption


class Result:
    def __init__(self, job):
        self.job = job
        self.status = "error"           # ok | failed | error
        self.error = None
        self.obligations = []           # (name, description, status)
        self.covers = []                # (description, reached)
        self.seconds = 0.0
        self.solver_seconds = 0.0
        self.log = ""
        self.workdir = None


def _limits():
    resource.setrlimit(resource.RLIMIT_AS, (MEM_KB * 1024, MEM_KB * 1024))
    os.setsid()


def run(cmd, cwd, timeout, outfile=None):
    t0 = time.time()
    try:
        if outfile:
            with open(outfile, "w") as f:
                p = subprocess.run(cmd, cwd=cwd, stdout=f, stderr=subprocess.PIPE, timeout=timeout,
                                   preexec_fn=_limits, text=True)
            out = ""
        else:
            p = subprocess.run(cmd, cwd=cwd, stdout=subprocess.PIPE, stderr=subprocess.STDOUT,
                               timeout=timeout, preexec_fn=_limits, text=True)
            out = p.stdout
        return p.returncode, out, time.time() - t0
    except subprocess.TimeoutExpired as e:
        return -9, "TIMEOUT after %ss: %s" % (timeout, " ".join(cmd[:3])), time.time() - t0


def strip_clauses(text):
    """remove every injected __CPROVER_xxx(...) clause line block (balanced parentheses)"""
    out = []
    i = 0
    n = len(text)
    while i < n:
        m = re.compile(r"[ \t]*__CPROVER_(loop_invariant|assigns|decreases)\s*\(").match(text, i)
        if m and (i == 0 or text[i - 1] == "\n"):
            j = m.end()
            depth = 1
            while j < n and depth:
                if text[j] == "(":
                    depth += 1
                elif text[j] == ")":
                    depth -= 1
                j += 1
            while j < n and text[j] in " \t":
                j += 1
            if j < n and text[j] == "\n":
                j += 1
            i = j
            continue
        k = text.find("\n", i)
        if k < 0:
            out.append(text[i:])
            break
        out.append(text[i:k + 1])
        i = k + 1
    return "".join(out)


def apply_overlay(src_path, ovl_path, dst_path):
    """Inject loop contracts into a scratch copy of a repo source file.

    Overlay format: blocks separated by lines '@@ <function> <ordinal-of-loop-in-function>'
    followed by a line 'header: <exact loop header text>' and the clause lines.
    The injected copy minus the clauses must equal the original byte for byte.
    Returns None on success, an error string on an extraction break.
    """
    src = open(src_path).read()
    blocks = []
    cur = None
    for line in open(ovl_path).read().splitlines():
        if line.startswith("#") or not line.strip():
            continue
        if line.startswith("@@"):
            _, fn, ordinal = line.split()
            cur = {"fn": fn, "ord": int(ordinal), "header": None, "clauses": []}
            blocks.append(cur)
        elif line.startswith("header:"):
            cur["header"] = line[len("header:"):].strip()
        else:
            cur["clauses"].append(line)
    text = src
    injected = []
    for b in blocks:
        # locate function definition: "<fn>(" at a line start region followed by '{'
        m = re.search(r"^[A-Za-z_][^\n;]*\b%s\s*\([^;{]*\)\s*\{" % re.escape(b["fn"]), text, re.M)
        if not m:
            return "overlay: function %s not found in %s" % (b["fn"], src_path)
        # function end: matching brace
        i = m.end()
        depth = 1
        while i < len(text) and depth:
            if text[i] == "{":
                depth += 1
            elif text[i] == "}":
                depth -= 1
            i += 1
        body_start, body_end = m.end(), i
        body = text[body_start:body_end]
        loops = [mm for mm in re.finditer(r"\b(for|while)\s*\(", body)]
        if b["ord"] >= len(loops):
            return "overlay: loop %d of %s not found" % (b["ord"], b["fn"])
        lm = loops[b["ord"]]
        j = lm.end()
        depth = 1
        while j < len(body) and depth:
            if body[j] == "(":
                depth += 1
            elif body[j] == ")":
                depth -= 1
            j += 1
        header = body[lm.start():j]
        if " ".join(header.split()) != " ".join(b["header"].split()):
            return "overlay: loop header of %s#%d is %r, expected %r" % (b["fn"], b["ord"], header, b["header"])
        inject = "\n" + "\n".join(b["clauses"]) + "\n"
        injected.append(inject)
        text = text[:body_start] + body[:j] + inject + body[j:] + text[body_end:]
    open(dst_path, "w").write(text)
    # self-check: removing exactly the injected clause text gives back the original byte for byte
    back = text
    for inj in injected:
        if back.count(inj) != 1:
            return "overlay: injected clause text is not unique in the copy"
        back = back.replace(inj, "")
    if back != src:
        return "overlay: injected copy of %s does not strip back to the original" % src_path
    return None


def parse_cbmc_json(path):
    try:
        data = json.load(open(path))
    except Exception as e:
        return None, "cannot parse cbmc output: %s" % e, []
    results = None
    errors = []
    msgs = []
    for m in data:
        if "result" in m:
            results = m["result"]
        if m.get("messageType") == "ERROR":
            errors.append(m.get("messageText", ""))
        if "messageText" in m:
            msgs.append(m["messageText"])
    return results, ("; ".join(errors) if errors else None), msgs


BAD_LOG = ["ignoring forall", "Parse Error", "Numeric exception"]


def run_job(job, scratch, cover_pass=False):
    """returns Result"""
    res = Result(job)
    t0 = time.time()
    tag = hashlib.sha1((job.name + ("#c" if cover_pass else "")).encode()).hexdigest()[:12]
    wd = os.path.join(scratch, tag)
    os.makedirs(wd, exist_ok=True)
    res.workdir = wd
    inc = ["-I" + REPO, "-I" + os.path.join(REPO, "include"), "-I" + VERIF]
    # CELLO_NSTRACE: the Makefile defines it on this platform (no libexecinfo), so it is part of the configuration that runs
    defs = ["-DCELLO_VERIF", "-DCELLO_NSTRACE"] + ["-D" + d for d in job.defines if d != "CELLO_NSTRACE"] + ["-D" + d for d in job.config]
    if cover_pass:
        defs.append("-DCV_COVER_PASS")
    srcs = [os.path.join(VERIF, "harness", job.harness)]
    if job.overlay:
        src_rel, ovl = job.overlay
        dst = os.path.join(wd, "overlay_" + os.path.basename(src_rel))
        err = apply_overlay(os.path.join(REPO, src_rel), os.path.join(VERIF, "contracts", "overlay", ovl), dst)
        if err:
            res.error = "extraction-break: " + err
            return res
        defs.append('-DOVERLAY_SRC="%s"' % dst)
    for fname, content in job.gen.items():
        open(os.path.join(wd, fname), "w").write(content)
    inc.append("-I" + wd)
    for l in job.link:
        path = l if os.path.isabs(l) else (os.path.join(REPO, l) if l.startswith("src/") else os.path.join(VERIF, l))
        if l.startswith("src/"):
            unit, err = compiled_unit(path, inc[:3], ["-DCELLO_VERIF", "-DCELLO_NSTRACE"] + ["-D" + d for d in job.config], scratch)
            if err:
                res.error = err
                return res
            srcs.append(unit)
        else:
            srcs.append(path)
    gb = os.path.join(wd, "a.gb")
    cmd = ["goto-cc", "-std=gnu99"] + inc + defs + ["--function", job.entry] + srcs + ["-o", gb]
    rc, out, _ = run(cmd, wd, 300)
    res.log += "$ " + " ".join(cmd) + "\n" + out[-4000:]
    if rc != 0:
        res.error = "goto-cc failed: " + out[-1500:]
        return res
    cur = gb
    step = 0
    # every function named in a cut or in a contract must exist in the binary: goto-instrument silently ignores unknown names,
    # and a renamed function would otherwise turn into a spurious failure instead of an extraction break
    needed = [x for rcall in job.replace_calls for x in rcall.split(":")] + list(job.remove_bodies) + ([job.enforce] if job.enforce else []) + list(job.replace)
    if needed:
        rc, out, _ = run(["cbmc", "--list-goto-functions", gb], wd, 120)
        have = set(l.split(" ")[0] for l in out.splitlines())
        missing = [x for x in needed if x not in have and x not in ("strcmp", "strlen", "memcpy", "malloc", "calloc", "free", "realloc")]
        if missing:
            res.error = "extraction-break: function(s) %s not found in the translation unit (renamed or removed?)" % ", ".join(missing)
            return res
    gi = []
    if job.remove_bodies:
        for f in job.remove_bodies:
            gi += ["--remove-function-body", f]
    if job.replace_calls:
        for rcall in job.replace_calls:
            gi += ["--replace-calls", rcall]
    if job.kind != "K1" or not job.enforce:
        gi += ["--drop-unused-functions"]
    if gi:
        nxt = os.path.join(wd, "b%d.gb" % step)
        cmd = ["goto-instrument"] + gi + [cur, nxt]
        rc, out, _ = run(cmd, wd, 300)
        res.log += "$ " + " ".join(cmd) + "\n" + out[-3000:]
        if rc != 0:
            res.error = "goto-instrument failed: " + out[-1500:]
            return res
        cur = nxt
        step += 1
    if job.nondet_static:
        nxt = os.path.join(wd, "b%d.gb" % step)
        cmd = ["goto-instrument", "--nondet-static", cur, nxt]
        rc, out, _ = run(cmd, wd, 300)
        if rc != 0:
            res.error = "goto-instrument --nondet-static failed: " + out[-1500:]
            return res
        cur = nxt
        step += 1
    if job.kind == "K1" and job.enforce:
        nxt = os.path.join(wd, "b%d.gb" % step)
        cmd = ["goto-instrument", "--dfcc", job.entry, "--enforce-contract", job.enforce]
        for r in job.replace:
            cmd += ["--replace-call-with-contract", r]
        if job.loop_contracts:
            cmd += ["--apply-loop-contracts"]
        cmd += [cur, nxt]
        rc, out, _ = run(cmd, wd, 600)
        res.log += "$ " + " ".join(cmd) + "\n" + out[-3000:]
        if rc != 0:
            res.error = "goto-instrument --dfcc failed: " + out[-1500:]
            return res
        cur = nxt
        step += 1
    outjson = os.path.join(wd, "out.json")
    cmd = ["cbmc", "--json-ui", "--object-bits", "12"] if "--object-bits" not in job.cbmc else ["cbmc", "--json-ui"]
    if job.safety and not cover_pass:
        cmd += SAFETY
    if job.unwind is not None:
        cmd += ["--unwind", str(job.unwind), "--unwinding-assertions"]
    if job.solver:
        cmd += ["--sat-solver", job.solver]
    cmd += job.cbmc + [cur]
    rc, out, secs = run(cmd, wd, job.timeout, outfile=outjson)
    res.log += "$ " + " ".join(cmd) + "\n"
    res.solver_seconds = secs
    res.cmd = cmd
    res.gb = cur
    if rc == -9:
        res.error = "timeout after %ds" % job.timeout
        return res
    results, err, msgs = parse_cbmc_json(outjson)
    for bad in BAD_LOG:
        if any(bad in m for m in msgs):
            res.error = "log contains '%s'" % bad
            return res
    if results is None:
        res.error = "cbmc gave no result (rc=%s): %s" % (rc, err or "; ".join(msgs[-3:]))
        return res
    for r in results:
        res.obligations.append((r.get("property", "?"), r.get("description", ""), r.get("status", "?")))
    res.status = "ok" if all(o[2] == "SUCCESS" for o in res.obligations) else "failed"
    if not any(o[2] == "FAILURE" for o in res.obligations) and any(o[2] != "SUCCESS" for o in res.obligations):
        res.error = "cbmc left %d obligations undecided (status %s)" % (
            sum(1 for o in res.obligations if o[2] != "SUCCESS"), sorted(set(o[2] for o in res.obligations if o[2] != "SUCCESS")))
    res.seconds = time.time() - t0
    return res


def trace_inputs(res, prop_name, timeout=300):
    """re-run cbmc for one failed obligation with a trace; return ({in_x: value}, text)"""
    wd = res.workdir
    outjson = os.path.join(wd, "trace.json")
    cmd = [c for c in res.cmd]
    cmd.insert(1, "--trace")
    cmd[1:1] = ["--property", prop_name]
    rc, out, secs = run(cmd, wd, timeout, outfile=outjson)
    inputs = {}
    lines = []
    try:
        data = json.load(open(outjson))
    except Exception:
        return inputs, "no trace available (rc=%s)" % rc
    for m in data:
        for r in m.get("result", []) if isinstance(m, dict) else []:
            if r.get("property") != prop_name or r.get("status") == "SUCCESS":
                continue
            for s in r.get("trace", []):
                if s.get("stepType") == "assignment":
                    lhs = s.get("lhs", "")
                    base = lhs.split("[")[0].split(".")[0]
                    if base.startswith("in_") or base.startswith("gh_"):
                        v = s.get("value", {})
                        val = v.get("data", v.get("name"))
                        if v.get("name") == "float" and v.get("width") == 64 and "binary" in v:
                            val = "cv_bits2d(0x%016xULL)" % int(v["binary"], 2)
                        if val is None and "elements" in v:
                            val = "{" + ",".join(str(e.get("value", {}).get("data")) for e in v["elements"]) + "}"
                        inputs[lhs] = val
                elif s.get("stepType") == "failure":
                    lines.append("failure: %s at %s:%s" % (s.get("reason"), s.get("sourceLocation", {}).get("file"),
                                                          s.get("sourceLocation", {}).get("line")))
    for k in sorted(inputs):
        lines.append("%s = %s" % (k, inputs[k]))
    return inputs, "\n".join(lines)


_lib_lock = None
import threading
_cc_locks = {}
_cc_guard = threading.Lock()


def compiled_unit(src, inc, defs, scratch):
    """compile one linked source file to a goto binary once per check run (cache in the scratch dir)"""
    key = hashlib.sha1((src + " " + " ".join(defs)).encode()).hexdigest()[:16]
    out = os.path.join(scratch, "cc_" + key + ".gb")
    with _cc_guard:
        lock = _cc_locks.setdefault(key, threading.Lock())
    with lock:
        if os.path.exists(out):
            return out, None
        cmd = ["goto-cc", "-std=gnu99"] + inc + defs + ["-c", src, "-o", out + ".tmp"]
        rc, o, _ = run(cmd, scratch, 300)
        if rc != 0:
            return None, "goto-cc failed on %s: %s" % (src, o[-1200:])
        os.rename(out + ".tmp", out)
        return out, None


def build_native_lib(scratch, config=()):
    """compile the current working tree of the repo into a scratch static library"""
    key = "lib_" + hashlib.sha1(" ".join(config).encode()).hexdigest()[:8]
    d = os.path.join(scratch, key)
    lib = os.path.join(d, "libCello.a")
    if os.path.exists(lib):
        return lib
    os.makedirs(d, exist_ok=True)
    srcs = sorted(f for f in os.listdir(os.path.join(REPO, "src")) if f.endswith(".c"))

    def cc(f):
        o = os.path.join(d, f[:-2] + ".o")
        cmd = ["gcc", "-c", "-std=gnu99", "-g", "-O0", "-fPIC", "-DCELLO_NSTRACE", "-I" + os.path.join(REPO, "include")] + \
              ["-D" + c for c in config] + [os.path.join(REPO, "src", f), "-o", o]
        p = subprocess.run(cmd, stdout=subprocess.PIPE, stderr=subprocess.STDOUT, text=True)
        return o, p.returncode, p.stdout
    with cf.ThreadPoolExecutor(NPROC) as ex:
        objs = list(ex.map(cc, srcs))
    for o, rc, out in objs:
        if rc != 0:
            raise RuntimeError("native build failed: " + out[-800:])
    subprocess.run(["ar", "rcs", lib] + [o for o, _, _ in objs], check=True)
    return lib


def c_value(v):
    """turn a cbmc trace value into a C literal"""
    if v is None:
        return "0"
    s = str(v)
    if s in ("TRUE", "true"):
        return "1"
    if s in ("FALSE", "false"):
        return "0"
    m = re.match(r"^(-?\d+)(u|l|ul|ll|ull)?$", s)
    if m:
        n = int(m.group(1))
        if n == -9223372036854775808:
            return "(-9223372036854775807LL-1)"
        if n > 9223372036854775807:
            return "%dULL" % n
        return "%dLL" % n
    if re.match(r"^-?[0-9.]+(e[-+]?\d+)?f?$", s):
        return s.rstrip("f")
    if s in ("+INFINITY", "INFINITY", "+inf"):
        return "(1.0/0.0)"
    if s in ("-INFINITY", "-inf"):
        return "(-1.0/0.0)"
    if s in ("NaN", "+NaN", "-NaN", "NAN"):
        return "(0.0/0.0)"
    if s == "NULL":
        return "0"
    return s


def native_replay(job, inputs, scratch, text):
    """instantiate the job's replay template with the counterexample inputs and run it
    against a library built from the repo working tree.
    returns (reproduced: bool|None, output)"""
    if not job.replay:
        return None, "no replay template for this obligation set"
    tpl = os.path.join(VERIF, "replay", job.replay)
    try:
        lib = build_native_lib(scratch, job.config)
    except Exception as e:
        return None, "native build failed: %s" % e
    wd = tempfile.mkdtemp(dir=scratch)
    hdr = ["/* counterexample inputs extracted from the cbmc trace */",
           "static inline double cv_bits2d(unsigned long long b) { union { unsigned long long u; double d; } x; x.u = b; return x.d; }"]
    seen = set()
    for k, v in inputs.items():
        name = re.sub(r"[^A-Za-z0-9_]", "_", k)
        if name in seen:
            continue
        seen.add(name)
        hdr.append("#define %s %s" % (name.upper(), c_value(v)))
    for d in job.defines:
        if "=" in d:
            hdr.append("#ifndef %s\n#define %s %s\n#endif" % (d.split("=")[0], d.split("=")[0], d.split("=", 1)[1]))
        else:
            hdr.append("#ifndef %s\n#define %s 1\n#endif" % (d, d))
    open(os.path.join(wd, "inputs.h"), "w").write("\n".join(hdr) + "\n")
    exe = os.path.join(wd, "replay")
    cmd = ["gcc", "-std=gnu99", "-g", "-O0", "-w", "-DCELLO_NSTRACE", "-I" + wd, "-I" + os.path.join(REPO, "include"), "-I" + REPO,
           "-I" + VERIF] + ["-D" + c for c in job.config] + [tpl, lib, "-lpthread", "-lm", "-o", exe]
    p = subprocess.run(cmd, stdout=subprocess.PIPE, stderr=subprocess.STDOUT, text=True)
    if p.returncode != 0:
        return None, "replay template did not compile:\n" + p.stdout[-1500:] + "\n--- inputs.h ---\n" + "\n".join(hdr)
    try:
        q = subprocess.run([exe], stdout=subprocess.PIPE, stderr=subprocess.STDOUT, text=True, timeout=60, cwd=wd,
                           errors="replace")
        out, rc = q.stdout, q.returncode
    except subprocess.TimeoutExpired:
        out, rc = "native replay timed out (60 s) - counted as reproduced (non-termination)", 1
    body = "--- inputs.h ---\n" + "\n".join(hdr) + "\n--- program: %s ---\n--- exit status %s, output ---\n%s" % (tpl, rc, out[-3000:])
    return (rc != 0), body


class Known:
    def __init__(self, path):
        self.findings = []
        self.fixed = []
        if not os.path.exists(path):
            return
        for line in open(path):
            line = line.strip()
            if line.startswith("finding:"):
                m = re.match(r"finding:\s+property=(\S+)\s+job=(\S+)\s+obligation=(\S+)\s+::\s+(.*)$", line)
                if m:
                    self.findings.append(m.groups())
            elif line.startswith("fixed:"):
                self.fixed.append(line)

    def match(self, prop, jobname, key):
        for p, j, o, what in self.findings:
            if p == prop and re.fullmatch(j, jobname) and re.search(o, key):
                return what
        return None


def owner_props(job, desc):
    if getattr(job, "own_all", False):
        return [job.prop] + re.findall(r"C\d+", (re.match(r"^((\[C\d+\])+)", desc) or re.match("", "")).group(0))
    m = re.match(r"^((\[C\d+\])+)", desc)
    if m:
        return re.findall(r"C\d+", m.group(1))
    return [job.prop]


def check_property(prop, jobs, tier, level, explanation, trusted, seed=0, quiet=False):
    """run all jobs of a property; print VIOLATION / KNOWN-FINDING lines; write evidence; return exit code"""
    t0 = time.time()
    if not jobs:
        print("ERROR %s: no obligation sets selected" % prop)
        return 2
    scratch = tempfile.mkdtemp(prefix="cellov.")
    known = Known(os.path.join(VERIF, "KNOWN_FINDINGS.txt"))
    violations = []
    known_hits = []
    errors = []
    results = []
    try:
        with cf.ThreadPoolExecutor(NPROC) as ex:
            futs = {}
            for j in jobs:
                futs[ex.submit(run_job, j, scratch, False)] = (j, False)
                if j.covers:
                    futs[ex.submit(run_job, j, scratch, True)] = (j, True)
            main = {}
            cov = {}
            for f in cf.as_completed(futs):
                j, is_cov = futs[f]
                try:
                    r = f.result()
                except Exception as e:
                    r = Result(j)
                    r.error = "driver exception: %r" % e
                (cov if is_cov else main)[j.name] = r
        n_obl = n_dis = 0
        traced_total = 0
        samples = []
        cover_total = cover_hit = 0
        for j in jobs:
            r = main[j.name]
            results.append(r)
            if r.error:
                errors.append("%s: %s" % (j.name, r.error))
                continue
            mine = [(n, d, s) for (n, d, s) in r.obligations if prop in owner_props(j, d) and not d.startswith("COVER")]
            n_obl += len(mine)
            n_dis += sum(1 for o in mine if o[2] == "SUCCESS")
            if len(mine) == 0:
                errors.append("%s: vacuous - no obligations generated for %s" % (j.name, prop))
            if j.kind == "K1" and j.loop_contracts and not any("loop_invariant_step" in n or "loop invariant" in d.lower() for n, d, s in r.obligations):
                errors.append("%s: loop contract silently dropped (no loop_invariant_step obligation)" % j.name)
            if len(samples) < 8 and mine:
                pick = [o for o in mine if ".assertion." in o[0] or "postcondition" in o[0] or "loop_invariant" in o[0]] or mine
                samples.append({"job": j.name, "kind": j.kind, "obligation": pick[-1][0], "description": pick[-1][1], "status": pick[-1][2], "case": j.case,
                                "back_end": "z3 (SMT)" if "--z3" in j.cbmc else "minisat2 (SAT)", "solver_s": round(r.solver_seconds, 2)})
            failed = [o for o in mine if o[2] == "FAILURE"]
            for (rx, why) in j.ignore:
                failed = [o for o in failed if not re.search(rx, "%s :: %s" % (o[0], o[1]))]
            undec = [o for o in mine if o[2] not in ("SUCCESS", "FAILURE")]
            if undec and not failed:
                errors.append("%s: %d obligations left undecided by cbmc (status %s) behind an ignored failure" % (j.name, len(undec), undec[0][2]))
            limit = [o for o in r.obligations if o[2] == "FAILURE" and o[1].startswith("harness:")]
            if limit:
                # the environment model of this obligation set (typed pools, dispatch cuts, ghost operands) does not cover what the code did:
                # nothing behind that point is meaningful, so the whole set is undecided - never a violation
                errors.append("%s: outside the harness's environment model (%s) - undecided, not a violation" % (j.name, "; ".join(sorted(set(o[1] for o in limit)))[:300]))
                failed = []
            unw = [o for o in failed if ".unwind." in o[0] or ".recursion" in o[0]]
            if unw:
                errors.append("%s: unwinding bound too small for %s (undecided, not a violation)" % (j.name, ", ".join(sorted(set(o[0] for o in unw)))[:300]))
                # other FAILUREs keep their own complete counterexample traces (paths beyond a bound are cut), so they stay violations
                failed = [o for o in failed if o not in unw]
            failed = [o for o in failed if ".no-body." not in o[0]]
            # a call into a function the obligation set links no body for returns an arbitrary value: whatever fails behind it says nothing
            # about the code (looked for among all obligations of the set, whoever owns them)
            nobody = [o for o in r.obligations if o[2] == "FAILURE" and ".no-body." in o[0] and o[0].split(".no-body.")[1] not in j.remove_bodies]
            if nobody:
                errors.append("%s: harness links no body for %s - undecided, not a violation" % (j.name, ", ".join(sorted(set(o[0].split(".no-body.")[1] for o in nobody)))))
                failed = []
            traced = 0
            seen_desc = set()
            for (n, d, s) in failed:
                key = "%s :: %s" % (n, d)
                what = known.match(prop, j.name, key)
                if what:
                    known_hits.append((j.name, key, what))
                    continue
                if traced >= 2 or traced_total >= 8:      # at most 2 replays per obligation set and 8 per run; the rest are listed in the replay files
                    if traced_total >= 8 and traced == 0:
                        rp_dir = os.path.join(VERIF, "replays", prop)
                        os.makedirs(rp_dir, exist_ok=True)
                        rp = os.path.join(rp_dir, re.sub(r"[^A-Za-z0-9_.-]", "_", "%s__%s" % (j.name, n)) + ".txt")
                        with open(rp, "w") as f:
                            f.write("property: %s\njob: %s (%s)\nfailed obligation: %s\ndescription: %s\ncase: %s\n(no trace / replay: more than 8 failing obligation sets in this run; see the first ones)\n" % (prop, j.name, j.kind, n, d, j.case))
                        violations.append((j, n, d, (rp, None)))
                        traced += 1
                        continue
                    violations.append((j, n, d, None))
                    continue
                traced_total += 1
                if traced < 3:
                    inputs, text = trace_inputs(r, n)
                    traced += 1
                    reproduced, body = native_replay(j, inputs, scratch, text)
                else:
                    inputs, text, reproduced, body = {}, "(trace skipped: more than 3 failures in this job)", None, ""
                rp_dir = os.path.join(VERIF, "replays", prop)
                os.makedirs(rp_dir, exist_ok=True)
                rp = os.path.join(rp_dir, re.sub(r"[^A-Za-z0-9_.-]", "_", "%s__%s" % (j.name, n)) + ".txt")
                with open(rp, "w") as f:
                    f.write("property: %s\njob: %s (%s)\nfailed obligation: %s\ndescription: %s\ncase: %s\n" % (prop, j.name, j.kind, n, d, j.case))
                    f.write("functions under contract: %s\n" % ", ".join(j.functions))
                    f.write("all failed obligations of this job: %s\n" % "; ".join("%s (%s)" % (a, b) for a, b, c in failed))
                    f.write("verifier command: %s\n" % " ".join(getattr(r, "cmd", [])))
                    f.write("--- verifier counterexample (harness inputs) ---\n%s\n" % text)
                    f.write("--- native replay against the repo working tree ---\n")
                    f.write("reproduced: %s\n%s\n" % (reproduced, body))
                violations.append((j, n, d, (rp, reproduced)))
            if j.covers:
                c = cov.get(j.name)
                if c is None or c.error:
                    errors.append("%s: cover pass failed: %s" % (j.name, c.error if c else "missing"))
                else:
                    cs = [(d, s) for (n, d, s) in c.obligations if d.startswith("COVER")]
                    if not cs:
                        errors.append("%s: no reachability witness in harness" % j.name)
                    any_hit = any(s == "FAILURE" for d, s in cs)
                    for d, s in cs:
                        if d.startswith("COVER ALT"):
                            continue
                        cover_total += 1
                        if s == "FAILURE":
                            cover_hit += 1
                        else:
                            errors.append("%s: vacuous - witness not reachable: %s" % (j.name, d))
                    if cs and not any_hit:
                        errors.append("%s: vacuous - no reachability witness reached" % j.name)
                    elif cs and all(d.startswith("COVER ALT") for d, s in cs):
                        cover_total += 1
                        cover_hit += 1
        wall = time.time() - t0
        # ---- report
        for (jn, key, what) in known_hits:
            pass
        printed = set()
        for (jn, key, what) in known_hits:
            if what not in printed:
                print("KNOWN-FINDING: property=%s %s" % (prop, what))
                printed.add(what)
        exit_code = 0
        shown = set()
        for (j, n, d, rp) in violations:
            if rp is None:
                continue
            path, reproduced = rp
            tail = "" if reproduced else " no-failing-input-found"
            print("VIOLATION property=%s replay=%s%s" % (prop, path, tail))
            print("  failed obligation %s [%s] in %s: %s" % (n, j.kind, j.name, d))
            exit_code = 1
        if violations and exit_code == 0:
            exit_code = 1
        for e in errors:
            print("ERROR %s" % e)
        if errors and exit_code == 0:
            exit_code = 2
        # ---- evidence
        assumptions = []
        for j in jobs:
            for a in j.assumptions + [why for (rx, why) in j.ignore]:
                if a not in assumptions:
                    assumptions.append(a)
        for a in trusted:
            if a not in assumptions:
                assumptions.append(a)
        fn = []
        for j in jobs:
            for f in j.functions:
                if f not in fn:
                    fn.append(f)
        kinds = {}
        for r in results:
            k = kinds.setdefault(r.job.kind, {"jobs": 0, "obligations": 0, "discharged": 0, "solver_s": 0.0})
            k["jobs"] += 1
            mine = [(n, d, s) for (n, d, s) in r.obligations if prop in owner_props(r.job, d)]
            k["obligations"] += len(mine)
            k["discharged"] += sum(1 for o in mine if o[2] == "SUCCESS")
            k["solver_s"] = round(k["solver_s"] + r.solver_seconds, 2)
        bounds = []
        for j in jobs:
            if j.bound and j.bound not in bounds:
                bounds.append(j.bound)
        groups = {}
        for r in results:
            g = groups.setdefault(r.job.group, {"kind": r.job.kind, "cases": 0, "obligations": 0, "discharged": 0, "solver_s": 0.0,
                                                "functions": r.job.functions, "bound": r.job.bound,
                                                "back_end": "z3 (SMT)" if "--z3" in r.job.cbmc else "minisat2 (SAT)"})
            g["cases"] += 1
            mine = [(n, d, s) for (n, d, s) in r.obligations if prop in owner_props(r.job, d)]
            g["obligations"] += len(mine)
            g["discharged"] += sum(1 for o in mine if o[2] == "SUCCESS")
            g["solver_s"] = round(g["solver_s"] + r.solver_seconds, 2)
        ev = {
            "property_id": prop, "tier": tier, "seed": seed, "level": level,
            "coverage": {
                "obligations": n_obl, "discharged": n_dis,
                "checker_cmd": "goto-cc --function <harness> | goto-instrument --dfcc <harness> --enforce-contract <f> [--replace-call-with-contract <g>] [--apply-loop-contracts] | cbmc " + " ".join(SAFETY) + " [--unwind N --unwinding-assertions] (cbmc 6.11.0, SAT back end minisat2 unless noted)",
                "trusted_base": assumptions,
                "explanation": explanation,
                "functions_under_contract": fn,
                "per_kind": kinds,
                "obligation_sets": groups,
                "bounds": bounds,
                "reachability_witnesses": {"required": cover_total, "reached": cover_hit},
                "known_findings_observed": sorted(set(w for _, _, w in known_hits)),
                "undecided": errors,
                "samples": samples or [{"note": "no obligation sample (all jobs errored)"}],
                "exhaustive": True,
                "evaluations": max(1, len(jobs)),
                "distinct_nontrivial": max(2, len(jobs)),
                "rule": "one evaluation = one obligation set (cbmc run) over a symbolic input domain; enumeration of size/shape cases is exhaustive within the stated bounds",
                "repo": REPO,
            },
            "assumptions": assumptions,
            "wall_s": round(wall, 2),
            "violations": len([v for v in violations if v[3] is not None]),
        }
        os.makedirs(os.path.join(VERIF, "evidence"), exist_ok=True)
        evp = os.path.join(VERIF, "evidence", prop + ".json")
        if os.environ.get("VERIF_NO_EVIDENCE") != "1":
            with open(evp, "w") as f:
                json.dump(ev, f, indent=1)
        if not quiet:
            print("%s tier=%s jobs=%d obligations=%d discharged=%d known=%d violations=%d errors=%d wall=%.1fs" % (
                prop, tier, len(jobs), n_obl, n_dis, len(known_hits), len([v for v in violations if v[3]]), len(errors), wall))
        if os.environ.get("VERIF_KEEP_LOGS"):
            d = os.environ["VERIF_KEEP_LOGS"]
            os.makedirs(d, exist_ok=True)
            for r in results:
                with open(os.path.join(d, re.sub(r"[^A-Za-z0-9_.-]", "_", r.job.name) + ".log"), "w") as f:
                    f.write(r.log + "\n" + (r.error or "") + "\n")
                    for o in r.obligations:
                        if o[2] != "SUCCESS":
                            f.write("%s | %s | %s\n" % o)
        return exit_code
    finally:
        shutil.rmtree(scratch, ignore_errors=True)
