/* K1 harnesses for src/Num.c: the real file is included, contracts are attached as
 * re-declarations, DFCC enforces one function per job and replaces c_int/c_float by contract. */
#include "src/Num.c"
#include "contracts/Num.h"

int64_t nondet_int64(void);

void h_Int_Cmp(void) {
  OBJ(Int, A); OBJ(Int, B);
  var a = MK(A, Int, AllocStack), b = MK(B, Int, AllocData);
  int64_t in_a = nondet_int64(), in_b = nondet_int64();
  A.v.val = in_a; B.v.val = in_b;
  int r = Int_Cmp(a, b);
  COVER(r < 0, "Int_Cmp negative"); COVER(r > 0, "Int_Cmp positive"); COVER(r == 0, "Int_Cmp zero");
  COVER(in_a - in_b > 4294967296LL || 1, "reached");
}

void h_Float_Cmp(void) {
  OBJ(Float, A); OBJ(Float, B);
  var a = MK(A, Float, AllocStack), b = MK(B, Float, AllocData);
  double in_a = nondet_double(), in_b = nondet_double();
  A.v.val = in_a; B.v.val = in_b;
  int r = Float_Cmp(a, b);
  COVER(r < 0, "Float_Cmp negative"); COVER(r > 0, "Float_Cmp positive");
  COVER(r == 0 && __CPROVER_signd(in_a) != __CPROVER_signd(in_b), "Float_Cmp signed zeros compare equal");
  COVER(__CPROVER_isinfd(in_a) && __CPROVER_isinfd(in_b) && r == 0, "Float_Cmp equal infinities");
}

void h_Int_Hash(void) {
  OBJ(Int, A);
  var a = MK(A, Int, AllocStack);
  int64_t in_a = nondet_int64();
  A.v.val = in_a;
  uint64_t h = Int_Hash(a);
  COVER(h != 0, "Int_Hash reached");
}

void h_Int_Assign(void) {
  OBJ(Int, A); OBJ(Int, B);
  var a = MK(A, Int, AllocStack), b = MK(B, Int, AllocHeap);
  int64_t in_a = nondet_int64(), in_b = nondet_int64();
  A.v.val = in_a; B.v.val = in_b;
  Int_Assign(a, b);
  COVER(A.v.val != in_a, "Int_Assign changes value");
}

void h_Float_Assign(void) {
  OBJ(Float, A); OBJ(Float, B);
  var a = MK(A, Float, AllocStack), b = MK(B, Float, AllocHeap);
  double in_a = nondet_double(), in_b = nondet_double();
  A.v.val = in_a; B.v.val = in_b;
  Float_Assign(a, b);
  COVER(A.v.val != in_a, "Float_Assign changes value");
}
