/* K1: String_Hash is hash_data over exactly the bytes before the NUL; Type_Hash likewise over the name */
#include "src/String.c"
#include "contracts/common.h"
extern const char* cv_sl_p; extern size_t cv_sl_ret; extern uint64_t cv_hd_ret;
const char* cv_sl_p; size_t cv_sl_ret; uint64_t cv_hd_ret;
/* assumed libc contract: strlen(p) is the number of bytes before the first NUL (ghost cv_sl_ret for p == cv_sl_p) */
size_t strlen(const char* s)
__CPROVER_requires(s == cv_sl_p)
__CPROVER_ensures(__CPROVER_return_value == cv_sl_ret)
__CPROVER_assigns()
;
/* hash_data contract as seen from the callers: some function of (pointer, length): ghost cv_hd_ret for (cv_sl_p, cv_sl_ret);
 * that it depends on the bytes only is C10.hash_data.k1 */
uint64_t hash_data(const void* data, size_t size)
__CPROVER_requires(data == cv_sl_p && size == cv_sl_ret)
__CPROVER_ensures(__CPROVER_return_value == cv_hd_ret)
__CPROVER_assigns()
;
static uint64_t String_Hash(var self)
__CPROVER_requires(__CPROVER_r_ok(self, sizeof(struct String)) && ((struct String*)self)->val == cv_sl_p)
__CPROVER_ensures(__CPROVER_return_value == cv_hd_ret)
__CPROVER_assigns()
;
void h_String_Hash(void) {
  OBJ(String, A);
  var a = MK(A, String, AllocData);
  A.v.val = nondet_ptr(); cv_sl_p = A.v.val; cv_sl_ret = nondet_ulong(); cv_hd_ret = nondet_ulong();
  uint64_t h = String_Hash(a);
  COVER(h != 0, "String_Hash reached");
}
