/* C15, K3: String_Show followed by String_Look over an abstract character stream: for a string of concrete length LS with
 * symbolic bytes (every value except NUL, so quotes, backslashes and control characters included) the text written is read
 * back into an equal string, consuming exactly the characters that were written. print_to / scan_from are modelled at the
 * level String.c uses them: literal text and "%c". */
#include "src/String.c"
#include "contracts/common.h"
#ifndef LS
#define LS 1
#endif
var header_init(var head, var type, int alloc) { struct Header* self = head; self->type = type; self->alloc = (var)(intptr_t)alloc; self->magic = (var)CELLO_MAGIC_NUM; return ((char*)self) + sizeof(struct Header); }
struct Header* header(var self) { return HDR(self); }
var type_of(var self) { return HDR(self)->type; }
var method_at_offset(var self, var cls, size_t offset, const char* m) { return NULL; }
var instance(var self, var cls) { return NULL; }
size_t len(var self) { return ((struct Tuple*)self)->items[0] == Terminal ? 0 : 1; }
var get(var self, var key) { return ((struct Tuple*)self)->items[0]; }
int64_t c_int(var x) { return ((struct Int*)x)->val; }
uint64_t hash_data(const void* d, size_t n) { return n; }
static int expect_throw; void cv_on_throw(var obj) { ASSERT(obj == OutOfMemoryError, "[C15] reading back what show wrote raises nothing"); }
/* the character stream */
static char STREAM[6 * LS + 16]; static int cv_wpos;
int print_to_with(var out, int pos, const char* fmt, var args) {
  /* print_to at the level String.c may use it: literal text, %%, %c and %s with one argument. A conversion specification without an
   * argument to go with it is what the real print_to answers with FormatError - that is how characters of the value show up when
   * they are handed over as format text */
  __CPROVER_assert(pos == cv_wpos, "[C15] show writes each piece at the position where the previous one ended");
  size_t nargs = len(args), used = 0;
  for (int i = 0; fmt[i] != 0; i++) {
    if (fmt[i] != '%') { STREAM[cv_wpos++] = fmt[i]; continue; }
    if (fmt[i + 1] == '%') { STREAM[cv_wpos++] = '%'; i++; continue; }
    if (used >= nargs) { __CPROVER_assert(0, "[C15] show never hands characters of the value to print_to as a conversion specification (FormatError, or text that differs from the value)"); __CPROVER_assume(0); }
    if (fmt[i + 1] == 'c') { STREAM[cv_wpos++] = (char)c_int(get(args, NULL)); used++; i++; continue; }
    if (fmt[i + 1] == 's') { const char* v = ((struct String*)get(args, NULL))->val; for (int k = 0; v[k] != 0; k++) STREAM[cv_wpos++] = v[k]; used++; i++; continue; }
    CV_LIMIT(0, "harness: print_to with a conversion other than %c and %s");
  }
  return cv_wpos;
}
int scan_from_with(var input, int pos, const char* fmt, var args) {
  CV_LIMIT(fmt[0] == '%' && fmt[1] == 'c' && fmt[2] == 0, "harness: look reads character by character");
  __CPROVER_assert(pos >= 0 && pos < cv_wpos, "[C15] look never reads past the text that show wrote");
  ((struct Int*)get(args, NULL))->val = STREAM[pos];
  return pos + 1;
}
void h_show_look(void) {
  OBJ(String, A); OBJ(String, B); OBJ(Ref, IO); struct String* a = MK(A, String, AllocHeap); struct String* b = MK(B, String, AllocHeap); var io = MK(IO, Ref, AllocStack);
  char in_s[LS + 1]; for (int i = 0; i < LS; i++) { in_s[i] = nondet_char(); __CPROVER_assume(in_s[i] != 0); } in_s[LS] = 0;
  a->val = in_s; b->val = malloc(1); __CPROVER_assume(b->val != NULL); b->val[0] = 0;
  int w = String_Show(a, io, 0);
  ASSERT(w == cv_wpos && w >= LS + 2, "show returns the position after the text it wrote");
  int r = String_Look(b, io, 0);
  ASSERT(r == w, "[C15] look consumes exactly the characters that show wrote");
  for (int i = 0; i <= LS; i++) ASSERT(b->val[i] == in_s[i], "[C15] a String written by show is read back by look into an equal String (quotes, backslashes and control characters included)");
  COVER(LS == 0 || in_s[0] == '\n', "a control character"); COVER(LS == 0 || in_s[0] == '"', "a quote"); COVER(LS == 0 || in_s[0] == 'a', "a plain character");
}
