/* K1: String_Cmp returns what strcmp returns for the two buffers, in this argument order */
#include "src/String.c"
#include "contracts/Str.h"
const char *cv_strcmp_a, *cv_strcmp_b; int cv_strcmp_ret;

static int String_Cmp(var self, var obj)
__CPROVER_requires(__CPROVER_r_ok(self, sizeof(struct String)) && IS_OBJ(obj, String))
__CPROVER_requires(cv_strcmp_a == ((struct String*)self)->val && cv_strcmp_b == ((struct String*)obj)->val)
__CPROVER_ensures(__CPROVER_return_value == cv_strcmp_ret)
__CPROVER_assigns()
;
void h_String_Cmp(void) {
  OBJ(String, A); OBJ(String, B);
  var a = MK(A, String, AllocHeap), b = MK(B, String, AllocStack);
  A.v.val = nondet_ptr(); B.v.val = nondet_ptr();
  cv_strcmp_a = A.v.val; cv_strcmp_b = B.v.val; cv_strcmp_ret = nondet_int();
  int r = String_Cmp(a, b);
  COVER(r < 0, "String_Cmp negative"); COVER(r == 0, "String_Cmp zero");
}
