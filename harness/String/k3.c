/* C16/C12/C19, K3: one real String operation on a heap String whose buffer holds an arbitrary C string of concrete length LA
 * (bytes symbolic, non-NUL, including bytes > 127), operand string of concrete length LB. libc string functions are the
 * reference models of stubs/libc_str.c (assumed: this is what libc does); realloc/free are cbmc's models. */
#include "src/String.c"
#include "contracts/common.h"
#ifndef LA
#define LA 2
#endif
#ifndef LB
#define LB 1
#endif
#ifndef HEAPCLS
#define HEAPCLS AllocHeap     /* AllocHeap, AllocData (embedded in a container) or AllocStack */
#endif
#ifndef RESIZE_TO
#define RESIZE_TO 1
#endif
var header_init(var head, var type, int alloc) {      /* per its K1 contract (C19.header_init.k1), in every build configuration */
  struct Header* self = head; self->type = type;
#if CELLO_ALLOC_CHECK == 1
  self->alloc = (var)(intptr_t)alloc;
#endif
#if CELLO_MAGIC_CHECK == 1
  self->magic = (var)CELLO_MAGIC_NUM;
#endif
  return ((char*)self) + sizeof(struct Header);
}
struct Header* header(var self) { return HDR(self); }
static OBJ(String, SA); static OBJ(String, SB); static struct String *sa, *sb;
static char in_a[LA + 1], in_b[LB + 1]; static char bbuf[LB + 1]; static char stackbuf[LA + 8];
/* dispatch cuts: c_str / instance(obj, C_Str) on a String are String's own instance (C08), len/get unused */
static struct C_Str cv_cstr = { String_C_Str };
var type_of(var self) { return HDR(self)->type; }
var method_at_offset(var self, var cls, size_t offset, const char* m) { CV_LIMIT(0, "harness: c_str of a String does not need the method table"); return NULL; }
var instance(var self, var cls) { CV_LIMIT(cls == C_Str, "harness: instance(obj, C_Str)"); return HDR(self)->type == String ? &cv_cstr : NULL; }
size_t len(var self) { return 1; } var get(var self, var key) { return sb; }
int64_t c_int(var x) { return ((struct Int*)x)->val; }
int print_to_with(var out, int pos, const char* fmt, var args) { return pos; }
int scan_from_with(var input, int pos, const char* fmt, var args) { return pos; }
uint64_t hash_data(const void* d, size_t n) { return n; }

static int expect_throw; static var expect_exc; static char* old_val;
static int a_unchanged(void) { if (sa->val != old_val) return 0; for (int i = 0; i <= LA; i++) if (sa->val[i] != in_a[i]) return 0; return 1; }
void cv_on_throw(var obj) {
  if (obj == OutOfMemoryError) return;
  ASSERT(expect_throw, "[C16][C12] no exception on an operation a heap String can honour");
  ASSERT(!expect_throw || obj == expect_exc, "[C12][C19] the documented exception kind is raised");
  ASSERT(a_unchanged(), "[C12][C19] a refused operation leaves the String (and its buffer) exactly as it was");
}
static void build(void) {
  sa = (struct String*)header_init(&SA.h, String, HEAPCLS); sb = (struct String*)header_init(&SB.h, String, AllocStack);
  for (int i = 0; i < LA; i++) { in_a[i] = nondet_char(); __CPROVER_assume(in_a[i] != 0); } in_a[LA] = 0;
  for (int i = 0; i < LB; i++) { in_b[i] = nondet_char(); __CPROVER_assume(in_b[i] != 0); bbuf[i] = in_b[i]; } in_b[LB] = 0; bbuf[LB] = 0;
  if (HEAPCLS == AllocStack) { sa->val = stackbuf; } else { sa->val = malloc(LA + 1); __CPROVER_assume(sa->val != NULL); }
  for (int i = 0; i <= LA; i++) sa->val[i] = in_a[i];
  sb->val = bbuf; old_val = sa->val;
}
/* the abstract string: bytes up to the first NUL, inside the allocation */
static void check_is(const char* want, int n, const char* what) {
  ASSERT(__CPROVER_r_ok(sa->val, n + 1), "[C16] the String stays NUL-terminated inside its own allocation");
  for (int i = 0; i < n; i++) ASSERT(sa->val[i] == want[i], "[C16] the String holds exactly the characters of the abstract string");
  ASSERT(sa->val[n] == 0, "[C16] the String stays NUL-terminated inside its own allocation");
  ASSERT(String_Len(sa) == (size_t)n && String_C_Str(sa) == sa->val, "[C16] len and c_str agree with the abstract string");
  for (int i = 0; i <= LB; i++) ASSERT(bbuf[i] == in_b[i], "the operand is left alone");
}
#define NONHEAP (HEAPCLS == AllocStack)
#define REFUSED(call, what) if (NONHEAP) { expect_throw = 1; expect_exc = ValueError; COVER_ALT(1, what " on a stack String"); call; ASSERT(0, "[C19] " what " on a stack String raises ValueError instead of reallocating"); return; }

void h_assign(void) { build(); REFUSED(String_Assign(sa, sb), "assign") String_Assign(sa, sb); check_is(in_b, LB, "assign"); ASSERT(sa->val != bbuf, "[C10] assign copies the characters, it does not share the buffer"); COVER_ALT(1, "assign"); }
/* C09: cmp on Strings is the C library's order on the two texts: the sign of the first differing byte pair compared as unsigned
 * char (the end of the shorter text counts as 0), whatever code computes it */
void h_cmp(void) {
  build();
  int want = 0; for (int i = 0; i <= LA && i <= LB; i++) { unsigned char x = (unsigned char)in_a[i], y = (unsigned char)in_b[i]; if (x != y) { want = x < y ? -1 : 1; break; } }
  int r = String_Cmp(sa, sb), q = String_Cmp(sb, sa);
  ASSERT((r < 0) == (want < 0) && (r > 0) == (want > 0), "[C09][C16] cmp on Strings is the byte-wise lexicographic order of the C library (bytes as unsigned char, prefix first)");
  ASSERT((q < 0) == (want > 0) && (q > 0) == (want < 0), "[C09][C16] cmp(b, a) has the opposite sign of cmp(a, b)");
  ASSERT(String_Cmp(sa, sa) == 0, "[C09][C16] a String compares equal to itself");
  for (int i = 0; i <= LA; i++) ASSERT(sa->val[i] == in_a[i], "cmp leaves its operands alone");
  COVER_ALT(want < 0, "smaller"); COVER_ALT(want > 0, "greater"); COVER_ALT(want == 0, "equal texts");
}
/* operand overlapping the target: ALIAS 1 = the String itself, ALIAS 2 = a stack String viewing the target's own buffer from offset 1 */
#ifndef ALIAS
#define ALIAS 1
#endif
static void make_alias(void) { if (ALIAS == 1) sb = sa; else sb->val = sa->val + (LA > 0 ? 1 : 0); }
#define AOFF (ALIAS == 1 || LA == 0 ? 0 : 1)
static void check_alias_result(const char* want, int n) {
  ASSERT(__CPROVER_r_ok(sa->val, n + 1), "[C16] the String stays NUL-terminated inside its own allocation");
  for (int i = 0; i < n; i++) ASSERT(sa->val[i] == want[i], "[C16] the String holds exactly the characters of the abstract string (operand overlapping the target)");
  ASSERT(sa->val[n] == 0 && String_Len(sa) == (size_t)n, "[C16] the String stays NUL-terminated inside its own allocation");
}
void h_assign_alias(void) { build(); make_alias(); String_Assign(sa, sb); check_alias_result(in_a + AOFF, LA - AOFF); COVER_ALT(1, "assign alias"); }
void h_concat_alias(void) { build(); make_alias(); String_Concat(sa, sb); char w[2 * LA + 1]; for (int i = 0; i < LA; i++) w[i] = in_a[i]; for (int i = 0; i + AOFF <= LA; i++) w[LA + i] = in_a[i + AOFF]; check_alias_result(w, 2 * LA - AOFF); COVER_ALT(1, "concat alias"); }
void h_concat(void) { build(); REFUSED(String_Concat(sa, sb), "concat") String_Concat(sa, sb); char w[LA + LB + 1]; for (int i = 0; i < LA; i++) w[i] = in_a[i]; for (int i = 0; i <= LB; i++) w[LA + i] = in_b[i]; check_is(w, LA + LB, "concat"); COVER_ALT(1, "concat"); }
void h_resize(void) { build(); REFUSED(String_Resize(sa, RESIZE_TO), "resize") String_Resize(sa, RESIZE_TO); check_is(in_a, RESIZE_TO < LA ? RESIZE_TO : LA, "resize"); ASSERT(__CPROVER_r_ok(sa->val, RESIZE_TO + 1), "[C16] resize(n) makes room for n characters"); COVER_ALT(1, "resize"); }
void h_clear(void) { build(); REFUSED(String_Clear(sa), "clear") String_Clear(sa); check_is("", 0, "clear"); COVER_ALT(1, "clear"); }
void h_del(void) { build(); REFUSED(String_Del(sa), "del") String_Del(sa); COVER_ALT(1, "del"); }
void h_new(void) {
  build();
  static OBJ(String, SN); struct String* sn = (struct String*)header_init(&SN.h, String, AllocHeap); sn->val = NULL;
  String_New(sn, sb);
  ASSERT(sn->val != NULL && sn->val != bbuf && __CPROVER_r_ok(sn->val, LB + 1), "[C16] a new String owns a copy of its argument");
  for (int i = 0; i <= LB; i++) ASSERT(sn->val[i] == in_b[i], "[C16] a new String holds its argument's characters");
  COVER_ALT(1, "new");
}
/* first occurrence of b in a, by definition */
static int first_occurrence(void) { for (int i = 0; i + LB <= LA; i++) { int m = 1; for (int j = 0; j < LB; j++) m = m && in_a[i + j] == in_b[j]; if (m) return i; } return -1; }
void h_mem_rem(void) {
  build();
  int p = first_occurrence();
  ASSERT(String_Mem(sa, sb) == (p >= 0), "[C16] mem is the substring test");
  COVER_ALT(p > 0, "occurrence not at the start"); COVER_ALT(p < 0, "absent substring"); COVER_ALT(p == 0, "occurrence at the start");
  if (p < 0) { expect_throw = 1; expect_exc = ValueError; String_Rem(sa, sb); ASSERT(0, "[C16][C12] rem of an absent substring raises instead of touching memory"); return; }
  String_Rem(sa, sb);
  char w[LA + 1]; int n = 0; for (int i = 0; i < LA; i++) if (i < p || i >= p + LB) w[n++] = in_a[i]; w[n] = 0;
  check_is(w, LA - LB, "rem");
}
/* formatted write at position POS: room for pos + size + 1 bytes before vsprintf writes size + 1 bytes at pos */
#ifndef POS
#define POS 1
#endif
static int gh_len; static char* cv_vs_dst; static int cv_vsn_calls, cv_vs_calls;
/* assumed libc contracts: the formatted text is gh_len characters 'x'; vsnprintf(b, n, ..) writes at most n-1 of them plus a
 * terminator (nothing when n == 0) and returns gh_len; vsprintf writes all of them plus the terminator and returns gh_len */
int vsnprintf(char* b, size_t n, const char* fmt, va_list va) {
  cv_vsn_calls++;
  if (n > 0) { __CPROVER_assert(__CPROVER_w_ok(b, n), "[C14][C16] vsnprintf is given a buffer of the size it is told"); size_t k = 0; for (; k + 1 < n && k < (size_t)gh_len; k++) b[k] = 'x'; b[k] = 0; }
  return gh_len;
}
int vsprintf(char* dst, const char* fmt, va_list va) {
  cv_vs_calls++; cv_vs_dst = dst;
  __CPROVER_assert(__CPROVER_w_ok(dst, gh_len + 1), "[C14][C16] formatting never writes outside the destination: room for the text and its terminator");
  for (int i = 0; i < gh_len; i++) dst[i] = 'x'; dst[gh_len] = 0; return gh_len;
}
static int call_format_to(var self, int pos, const char* fmt, ...) { va_list va; va_start(va, fmt); int r = String_Format_To(self, pos, fmt, va); va_end(va); return r; }
#ifndef GLEN
#define GLEN -1
#endif
void h_format_to(void) {
  build();
  if (GLEN >= 0) gh_len = GLEN; else { gh_len = nondet_int(); __CPROVER_assume(gh_len >= 0 && gh_len <= 3); }
  REFUSED(call_format_to(sa, POS, "%s", "x"), "format_to")
  int r = call_format_to(sa, POS, "%s", "x");
  ASSERT(r == gh_len, "[C14] format_to returns the number of characters written");
  for (int i = 0; i < POS && i < LA; i++) ASSERT(sa->val[i] == in_a[i], "[C14] text before the position is preserved");
  ASSERT(__CPROVER_r_ok(sa->val, POS + gh_len + 1), "[C16] the String stays NUL-terminated inside its own allocation after a formatted write");
  for (int i = 0; i < gh_len; i++) ASSERT(sa->val[POS + i] == 'x', "[C14][C16] the String holds exactly the characters that were formatted, at the given position");
  ASSERT(sa->val[POS + gh_len] == 0, "[C16] the String stays NUL-terminated after a formatted write");
  COVER_ALT(1, "format_to");
}
