/* C04/C11/C12/C19, K3: one real Tuple operation on an arbitrary well-formed Tuple (items[0..N) element pointers, exactly one
 * Terminal, at position N) with symbolic element values. HEAP=1: heap receiver (items malloc'ed, exactly N+1 slots);
 * HEAP=0: stack receiver - every reallocating operation must raise ValueError before touching anything. */
#include "src/Tuple.c"
#include "contracts/elem.h"

#ifndef N
#define N 2
#endif
#ifndef IDX
#define IDX 0
#endif
#ifndef M
#define M 2
#endif
#ifndef HEAP
#define HEAP 1
#endif
#ifndef DUP
#define DUP 0     /* DUP=1: items[N-1] is the same object as items[0] */
#endif

static struct { struct Header h; struct Tuple v; } TO; static struct Tuple* t;
static struct { struct Header h; struct Elem v; } E[N + 1]; static int64_t in_v[N + 1]; static var old_item[N + 2];
static var stack_items[N + 1];
static OBJ(Elem, X); static var x; static int64_t in_x;
static struct { struct Header h; struct Elem v; } W[M + 1]; static int64_t in_w[M + 1]; static OBJ(Ref, SRC); static var src;
static var src_iter_init(var self) { return M == 0 ? Terminal : (var)&W[0].v; }
static var src_iter_next(var self, var curr) { size_t i = ((char*)curr - (char*)&W[0].v) / sizeof(W[0]); return i + 1 < M ? (var)&W[i + 1].v : Terminal; }
static struct Iter cv_src_iter = { src_iter_init, src_iter_next, NULL, NULL, NULL };
static struct Iter cv_tuple_iter = { Tuple_Iter_Init, Tuple_Iter_Next, Tuple_Iter_Last, Tuple_Iter_Prev, NULL };
size_t len(var self) { CV_LIMIT(self == src, "harness: len of the operand iterable"); return M; }
var get(var self, var key) { CV_LIMIT(self == src, "harness: get of the operand iterable"); int64_t i = c_int(key); __CPROVER_assert(i >= 0 && i < M, "[C04] the operand of concat / assign is read only inside its length"); return &W[i].v; }
var instance(var self, var cls) { CV_LIMIT((self == src || self == (var)t) && cls == Iter, "harness: instance(.., Iter)"); return self == src ? &cv_src_iter : &cv_tuple_iter; }
var method_at_offset(var self, var cls, size_t offset, const char* m) { CV_LIMIT(self == src && cls == Iter, "harness: method(operand, Iter, ..)"); return &cv_src_iter; }
bool implements_method_at_offset(var self, var cls, size_t offset) { return self == src; }

static int expect_throw; static var expect_exc; static var* old_items;
static int state_unchanged(void) {
  if (t->items != old_items) return 0;
  for (int i = 0; i <= N; i++) if (t->items[i] != old_item[i]) return 0;
  return HDR(t)->type == Tuple && HDR(t)->alloc == (var)(intptr_t)(HEAP == 2 ? AllocData : HEAP ? AllocHeap : AllocStack);
}
void cv_on_throw(var obj) {
  if (obj == OutOfMemoryError) return;
  ASSERT(expect_throw, "[C04][C12] no exception on an in-range operation");
  ASSERT(!expect_throw || obj == expect_exc, "[C12][C19] the documented exception kind is raised");
  ASSERT(state_unchanged(), "[C12][C19] a failed operation leaves the Tuple exactly as it was (items, order, storage)");
}
static void arbitrary_tuple(void) {
  t = (struct Tuple*)header_init(&TO.h, Tuple, HEAP == 2 ? AllocData : HEAP ? AllocHeap : AllocStack);      /* HEAP=2: a Tuple stored by value inside a container */
  if (HEAP) { t->items = malloc(sizeof(var) * (N + 1)); __CPROVER_assume(t->items != NULL); } else { t->items = stack_items; }
  for (int i = 0; i < N; i++) { header_init(&E[i].h, ELEM, AllocStack); in_v[i] = nondet_long(); E[i].v.val = in_v[i]; E[i].v.tok = 0; t->items[i] = &E[i].v; }
  if (DUP && N >= 2) { t->items[N - 1] = t->items[0]; in_v[N - 1] = in_v[0]; }
  t->items[N] = Terminal;
  for (int i = 0; i <= N; i++) old_item[i] = t->items[i];
  old_items = t->items;
  in_x = nondet_long(); x = header_init(&X.h, ELEM, AllocStack); EV(x) = in_x; ET(x) = 0;
  for (int i = 0; i < M; i++) { header_init(&W[i].h, ELEM, AllocData); in_w[i] = nondet_long(); W[i].v.val = in_w[i]; W[i].v.tok = 0; }
  src = MK(SRC, Ref, AllocStack);
}
static void check_wf(size_t n) {
  ASSERT(__CPROVER_r_ok(t->items, sizeof(var) * (n + 1)), "the item vector covers len+1 slots");
  for (size_t i = 0; i < n; i++) ASSERT(t->items[i] != Terminal, "[C04] exactly one Terminal, at position len");
  ASSERT(t->items[n] == Terminal, "[C04] the item vector is terminated at position len");
  ASSERT(Tuple_Len(t) == n, "[C04] len is the length of the abstract sequence");
}
#define NEEDS_HEAP(callexpr, what) \
  if (!HEAP) { expect_throw = 1; expect_exc = ValueError; COVER_ALT(1, what " on a stack Tuple"); callexpr; ASSERT(0, "[C19] " what " on a stack Tuple raises ValueError instead of reallocating"); return; }

void h_push(void) {
  arbitrary_tuple();
  NEEDS_HEAP(Tuple_Push(t, x), "push")
  Tuple_Push(t, x);
  check_wf(N + 1);
  for (int j = 0; j < N; j++) ASSERT(t->items[j] == old_item[j], "[C04] push keeps the existing items in order");
  ASSERT(t->items[N] == x, "[C04] push appends the item at the end");
  COVER_ALT(1, "push returns");
}
void h_pop(void) {
  arbitrary_tuple();
  if (N == 0) { expect_throw = 1; expect_exc = IndexOutOfBoundsError; COVER_ALT(1, "pop on empty"); Tuple_Pop(t); ASSERT(0, "[C12] pop from an empty Tuple raises IndexOutOfBoundsError"); return; }
  NEEDS_HEAP(Tuple_Pop(t), "pop")
  Tuple_Pop(t);
  check_wf(N - 1);
  for (int j = 0; j + 1 < N; j++) ASSERT(t->items[j] == old_item[j], "[C04] pop keeps the remaining items in order");
  COVER_ALT(1, "pop returns");
}
void h_push_at(void) {
  arbitrary_tuple();
  int in_range = (IDX >= 0 && IDX < N) || (IDX < 0 && IDX >= -N);
  int p = IDX < 0 ? N + IDX : IDX;
  if (!in_range) { expect_throw = 1; expect_exc = IndexOutOfBoundsError; COVER_ALT(1, "push_at out of range"); Tuple_Push_At(t, x, $I(IDX)); ASSERT(0, "[C12] push_at with an out-of-range index raises IndexOutOfBoundsError"); return; }
  NEEDS_HEAP(Tuple_Push_At(t, x, $I(IDX)), "push_at")
  Tuple_Push_At(t, x, $I(IDX));
  check_wf(N + 1);
  ASSERT(t->items[p] == x, "[C04] push_at inserts the item at the requested position");
  for (int j = 0; j < N; j++) ASSERT(t->items[j < p ? j : j + 1] == old_item[j], "[C04] push_at keeps all other items in order");
  COVER_ALT(1, "push_at returns");
}
void h_pop_at(void) {
  arbitrary_tuple();
  int in_range = (IDX >= 0 && IDX < N) || (IDX < 0 && IDX >= -N);
  int p = IDX < 0 ? N + IDX : IDX;
  if (!in_range) { expect_throw = 1; expect_exc = IndexOutOfBoundsError; COVER_ALT(1, "pop_at out of range"); Tuple_Pop_At(t, $I(IDX)); ASSERT(0, "[C12] pop_at with an out-of-range index raises IndexOutOfBoundsError"); return; }
  NEEDS_HEAP(Tuple_Pop_At(t, $I(IDX)), "pop_at")
  Tuple_Pop_At(t, $I(IDX));
  check_wf(N - 1);
  for (int j = 0; j < N; j++) if (j != p) ASSERT(t->items[j < p ? j : j - 1] == old_item[j], "[C04] pop_at removes exactly the addressed item and keeps the others in order");
  COVER_ALT(1, "pop_at returns");
}
void h_get_set(void) {
  arbitrary_tuple();
  int in_range = (IDX >= 0 && IDX < N) || (IDX < 0 && IDX >= -N);
  int p = IDX < 0 ? N + IDX : IDX;
  expect_throw = !in_range; expect_exc = IndexOutOfBoundsError;
  COVER_ALT(1, "get called");
  var e = Tuple_Get(t, $I(IDX));
  ASSERT(in_range, "[C12] get with an out-of-range index raises IndexOutOfBoundsError");
  ASSERT(e == old_item[p], "[C04] get(i) is the i-th item (negative i counts from the end)");
  Tuple_Set(t, $I(IDX), x);
  check_wf(N);
  for (int j = 0; j < N; j++) ASSERT(t->items[j] == (j == p ? x : old_item[j]), "[C04] set replaces exactly the addressed item");
}
void h_set_bad(void) {
  arbitrary_tuple();
  expect_throw = 1; expect_exc = IndexOutOfBoundsError;
  COVER_ALT(1, "set called");
  Tuple_Set(t, $I(IDX), x);
  ASSERT((IDX >= 0 && IDX < N) || (IDX < 0 && IDX >= -N), "[C12] set with an out-of-range index raises IndexOutOfBoundsError");
}
void h_mem_rem(void) {
  arbitrary_tuple();
  int first = -1; for (int j = N - 1; j >= 0; j--) if (in_v[j] == in_x) first = j;
  ASSERT(Tuple_Mem(t, x) == (first >= 0), "[C04] mem agrees with the abstract sequence");
  if (first < 0) { expect_throw = 1; expect_exc = ValueError; COVER_ALT(1, "rem of an absent item"); Tuple_Rem(t, x); ASSERT(0, "[C12] rem of an absent item raises ValueError"); return; }
  NEEDS_HEAP(Tuple_Rem(t, x), "rem")
  COVER_ALT(N < 2 || first > 0, "rem of an item that is not the first");
  Tuple_Rem(t, x);
  check_wf(N - 1);
  for (int j = 0; j < N; j++) if (j != first) ASSERT(t->items[j < first ? j : j - 1] == old_item[j], "[C04] rem deletes the first item equal to its argument and nothing else");
}
void h_resize(void) {
  arbitrary_tuple();
  NEEDS_HEAP(Tuple_Resize(t, IDX), "resize")
  if (IDX >= N) { expect_throw = 1; expect_exc = FormatError; COVER_ALT(1, "resize that cannot be honoured"); Tuple_Resize(t, IDX); ASSERT(0, "[C12] a resize a Tuple cannot honour raises"); return; }
  Tuple_Resize(t, IDX);
  check_wf(IDX);
  for (int j = 0; j < IDX; j++) ASSERT(t->items[j] == old_item[j], "[C04] resize keeps the surviving prefix");
  COVER_ALT(1, "resize returns");
}
void h_del(void) {
  arbitrary_tuple();
  NEEDS_HEAP(Tuple_Del(t), "del")
  Tuple_Del(t);
  COVER_ALT(1, "del returns");
}
void h_concat(void) {
  arbitrary_tuple();
  NEEDS_HEAP(Tuple_Concat(t, src), "concat")
  Tuple_Concat(t, src);
  check_wf(N + M);
  for (int j = 0; j < N; j++) ASSERT(t->items[j] == old_item[j], "[C04] concat keeps the existing items in order");
  for (int j = 0; j < M; j++) ASSERT(t->items[N + j] == (var)&W[j].v, "[C04] concat appends the operand's items in order");
  COVER_ALT(1, "concat returns");
}
void h_assign(void) {
  arbitrary_tuple();
  NEEDS_HEAP(Tuple_Assign(t, src), "assign")
  Tuple_Assign(t, src);
  check_wf(M);
  for (int j = 0; j < M; j++) ASSERT(t->items[j] == (var)&W[j].v, "[C04][C10] assign makes the Tuple equal to the operand, item by item");
  COVER_ALT(1, "assign returns");
}
void h_iter(void) {
  arbitrary_tuple();
  var c = Tuple_Iter_Init(t);
  for (int j = 0; j < N; j++) { ASSERT(c == old_item[j], "[C11] forward iteration yields the i-th item at step i"); c = Tuple_Iter_Next(t, c); }
  ASSERT(c == Terminal, "[C11] forward iteration ends with Terminal after exactly len items");
  c = Tuple_Iter_Last(t);
  for (int j = N - 1; j >= 0; j--) { ASSERT(c == old_item[j], "[C11] backward iteration yields the same items in reverse order"); c = Tuple_Iter_Prev(t, c); }
  ASSERT(c == Terminal, "[C11] backward iteration ends with Terminal after exactly len items");
  COVER_ALT(1, "iteration done");
}
void h_hash_cmp(void) {
  arbitrary_tuple();
  uint64_t h = 0; for (int j = 0; j < N; j++) h ^= cv_hash_of(in_v[j]);
  ASSERT(Tuple_Hash(t) == h, "[C10] the hash of a Tuple is the XOR of its items' hashes (equal to an Array's or List's with equal elements)");
  int want = 0;
  for (int j = 0; j < N || j < M; j++) {
    if (j >= N) { want = -1; break; } if (j >= M) { want = 1; break; }
    if (in_v[j] < in_w[j]) { want = -1; break; } if (in_v[j] > in_w[j]) { want = 1; break; }
  }
  ASSERT(Tuple_Cmp(t, src) == want, "[C09] cmp on Tuple is the lexicographic order over the items, shorter prefix first");
  COVER_ALT(want == 0 || N != M || N == 0, "equal sequences");
}
static bool cv_lt(var p, var q) { return EV(p) < EV(q); }
void h_sort(void) {
  arbitrary_tuple();
  int64_t gh_v = nondet_long(); int before = 0, after = 0;
  for (int j = 0; j < N; j++) before += (in_v[j] == gh_v);
  Tuple_Sort_By(t, cv_lt);
  check_wf(N);
  for (int j = 0; j + 1 < N; j++) ASSERT(EV(t->items[j]) <= EV(t->items[j + 1]), "[C04] sort orders the items by the comparison function");
  for (int j = 0; j < N; j++) after += (EV(t->items[j]) == gh_v);
  ASSERT(before == after, "[C04] sort leaves a permutation of the previous contents (every value keeps its multiplicity)");
  for (int j = 0; j < N; j++) ASSERT(E[j].v.val == in_v[j], "sort moves references, not values");
  COVER_ALT(N < 2 || in_v[0] > in_v[1], "sort has work to do"); COVER_ALT(N < 2 || in_v[0] == in_v[1], "sort with duplicates");
}

/* ---- C04 sort, modular (see harness/Array/k3.c): partition contract (P), Tuple_Sort_Part by induction over the range length with the
 * partition and the recursive calls cut by their contracts (S), Tuple_Sort_By composition (C). A Tuple holds references: the
 * permutation is one of the item pointers, the objects themselves are never written. ---- */
#ifndef SL
#define SL 0
#endif
#ifndef SR
#define SR (N - 1)
#endif
#define TV(j) EV(t->items[(j)])
static var gh_item; static int cv_part_calls, cv_rec_calls, cv_stub_bad;
static int count_in(int64_t lo, int64_t hi) { int c = 0; for (int j = 0; j < N; j++) if (j >= lo && j <= hi && t->items[j] == gh_item) c++; return c; }
static int rest_untouched(int64_t lo, int64_t hi) { for (int j = 0; j <= N; j++) if ((j < lo || j > hi) && t->items[j] != old_item[j]) return 0; for (int j = 0; j < N; j++) if (E[j].v.val != in_v[j]) return 0; return 1; }
static void cv_permute(int64_t l, int64_t r) {
  var tmp[N + 1]; int p[N + 1];
  for (int i = 0; i < N; i++) if (i >= l && i <= r) {
    p[i] = nondet_int(); __CPROVER_assume(p[i] >= l && p[i] <= r);
    for (int k = 0; k < i; k++) if (k >= l) __CPROVER_assume(p[k] != p[i]);
    tmp[i] = t->items[p[i]];
  }
  for (int i = 0; i < N; i++) if (i >= l && i <= r) t->items[i] = tmp[i];
}
size_t cv_partition_stub(struct Tuple* tt, int64_t l, int64_t r, bool(*f)(var,var)) {
  cv_part_calls++;
  if (!(tt == t && l == SL && r == SR && l < r && f == cv_lt)) { cv_stub_bad++; return l; }
  cv_permute(l, r);
  int64_t s = nondet_long(); __CPROVER_assume(s >= l && s <= r);
  for (int j = 0; j < N; j++) { if (j >= l && j < s) __CPROVER_assume(TV(j) < TV(s)); if (j > s && j <= r) __CPROVER_assume(!(TV(j) < TV(s))); }
  return (size_t)s;
}
void cv_sort_part_stub(struct Tuple* tt, int64_t l, int64_t r, bool(*f)(var,var)) {
  cv_rec_calls++;
  if (!(tt == t && f == cv_lt && l >= SL && r <= SR && (r - l) < (SR - SL))) { cv_stub_bad++; return; }
  if (l >= r) return;
  cv_permute(l, r);
  for (int j = 0; j + 1 < N; j++) if (j >= l && j + 1 <= r) __CPROVER_assume(!(TV(j + 1) < TV(j)));
}
void cv_sort_part_top(struct Tuple* tt, int64_t l, int64_t r, bool(*f)(var,var)) { cv_rec_calls++; if (!(tt == t && l == 0 && r == (int64_t)N - 1 && f == cv_lt)) cv_stub_bad++; }
void h_sort_partition(void) {
  arbitrary_tuple(); unsigned g = nondet_unsigned(); __CPROVER_assume(g < N); gh_item = &E[g].v; int before = count_in(SL, SR);
  size_t s = Tuple_Sort_Partition(t, SL, SR, cv_lt);
  check_wf(N);
  ASSERT((int64_t)s >= SL && (int64_t)s <= SR, "[C04] partition returns a position inside the range");
  for (int j = SL; j <= SR; j++) { if (j < (int64_t)s) ASSERT(TV(j) < TV(s), "[C04] everything before the pivot position compares below the pivot"); if (j > (int64_t)s) ASSERT(!(TV(j) < TV(s)), "[C04] nothing after the pivot position compares below the pivot"); }
  ASSERT(count_in(SL, SR) == before && rest_untouched(SL, SR), "[C04] partition permutes the items of the range, touches nothing outside it and writes to no item");
  COVER_ALT(1, "partition returns");
}
#ifdef CV_SORT_BODY
#include "gen_sort_part.h"      /* Tuple_Sort_Part_body: the text of Tuple_Sort_Part extracted from /repo on this run, definition line renamed */
#endif
void h_sort_part(void) {
  arbitrary_tuple(); unsigned g = nondet_unsigned(); __CPROVER_assume(g < N); gh_item = &E[g].v; int before = count_in(SL, SR);
#ifdef CV_SORT_BODY
  Tuple_Sort_Part_body(t, SL, SR, cv_lt);
#endif
  check_wf(N);
  ASSERT(cv_stub_bad == 0, "[C04] sort partitions exactly its own range and recurses only into strictly shorter sub-ranges of it (termination, frame)");
  for (int j = SL; j + 1 <= SR; j++) ASSERT(!(TV(j + 1) < TV(j)), "[C04] sort orders the range by the comparison function");
  ASSERT(count_in(SL, SR) == before && rest_untouched(SL, SR), "[C04] sort leaves a permutation of the range and touches nothing outside it");
  COVER_ALT(cv_part_calls == 1 && cv_rec_calls == 2, "partitioned once, recursed twice");
}
void h_sort_by(void) {
  arbitrary_tuple();
  Tuple_Sort_By(t, cv_lt);
  ASSERT(cv_rec_calls == 1 && cv_stub_bad == 0, "[C04] sort_by sorts the whole sequence: Tuple_Sort_Part(t, 0, len-1, f), once");
  COVER_ALT(1, "sort_by returns");
}

/* C01: the container's Mark instance hands every element to the collector's callback, once */
static int cv_mk_calls, cv_mk_hits; static var cv_mk_watch, cv_mk_gc;
static void cv_mark_cb(var g, void* p) { cv_mk_calls++; if (g != cv_mk_gc) cv_mk_calls += 100; if (p == cv_mk_watch) cv_mk_hits++; }
void h_mark(void) {
  arbitrary_tuple();
  size_t gh_j = nondet_ulong(); __CPROVER_assume(N == 0 || gh_j < N);
  cv_mk_gc = &X; cv_mk_watch = N ? old_item[gh_j] : NULL;
  Tuple_Mark(t, cv_mk_gc, cv_mark_cb);
  ASSERT(cv_mk_calls == N && (N == 0 || cv_mk_hits == 1), "[C01] Tuple_Mark passes every item to the callback exactly once");
  COVER_ALT(1, "mark done");
}

/* C14: show of a container writes each element's own show text exactly once, in iteration order, separated by ", ";
 * the position returned by each piece is the position of the next (print_to is cut by a recording contract) */
static int cv_sh_calls, cv_sh_elems, cv_sh_seps, cv_sh_bad, cv_sh_pos; static var cv_sh_out; static var cv_sh_seq[8];
static int cv_sh_streq(const char* a, const char* b) { size_t i = 0; while (a[i] != 0 && a[i] == b[i]) i++; return a[i] == b[i]; }
int print_to_with(var out, int pos, const char* fmt, var args) {
  if (out != cv_sh_out || pos != cv_sh_pos) cv_sh_bad++;
  cv_sh_calls++;
  if (cv_sh_streq(fmt, "%$")) { if (cv_sh_elems < 8) cv_sh_seq[cv_sh_elems] = ((struct Tuple*)args)->items[0]; if (cv_sh_seps != cv_sh_elems - (cv_sh_elems > 0 ? 0 : 0) && cv_sh_seps != cv_sh_elems) cv_sh_bad++; cv_sh_elems++; }
  else if (cv_sh_streq(fmt, ", ")) { cv_sh_seps++; if (cv_sh_seps != cv_sh_elems) cv_sh_bad++; }
  cv_sh_pos += 1 + (cv_sh_calls % 3);
  return cv_sh_pos;
}
void h_show(void) {
  arbitrary_tuple(); cv_sh_out = &X; cv_sh_pos = nondet_int(); __CPROVER_assume(cv_sh_pos >= 0 && cv_sh_pos < 1000); int p0 = cv_sh_pos;
  int r = Tuple_Show(t, cv_sh_out, p0);
  ASSERT(cv_sh_elems == N && cv_sh_seps == (N ? N - 1 : 0) && cv_sh_bad == 0, "[C14] show of a Tuple writes every item's show text once, in order, separated by commas, each piece at the position the previous one returned");
  for (int j = 0; j < N; j++) ASSERT(cv_sh_seq[j] == old_item[j], "[C14] the j-th text shown is the j-th item's");
  ASSERT(r == cv_sh_pos && cv_sh_calls == N + (N ? N - 1 : 0) + 2, "[C14] show returns the position after the closing bracket");
  COVER_ALT(1, "show done");
}
