/* C02/C05/C11/C12/C19, K3: one real Table operation on an arbitrary robin-hood table of concrete capacity NS with fully
 * symbolic contents (occupancy, keys, values, stored homes), over the element model with an uninterpreted narrow hash -
 * so keys collide arbitrarily. Pre-state: wf_rh (DESIGN.md 3.3); post-state: wf_rh again and the abstract map changed
 * exactly as the property says, stated for the operand key and for a fixed-but-arbitrary other key gh_q. */
#include "src/Table.c"
#define CV_NARROW_HASH 1
#define CV_LEDGER_LIGHT 1
#include "contracts/elem.h"

#ifndef NS
#define NS 5
#endif

/* typed storage (an untyped calloc block would make every field read a byte_extract symex cannot fold) */
struct Slot { uint64_t h; struct Header kh; struct Elem k; struct Header vh; struct Elem v; };
#define NPOOL 12
#ifdef GUARD
/* iteration harness: the slot array sits inside a larger block (one guard slot in front and behind, marked occupied), as a
 * heap block does. Table_Iter_Prev forms 'curr - step' below the first slot before it compares; with the array at offset 0
 * of its own cbmc object that intermediate pointer wraps in cbmc's offset encoding (an artefact of the pointer model, not
 * of the code). A cursor that wrongly lands on a guard slot is 'occupied' and breaks the step count. */
static struct Slot POOL_A_[NPOOL + 2];
#define POOL_A (&POOL_A_[1])
static struct Slot POOL_B[NPOOL], SS0, SS1;
#else
static struct Slot POOL_A[NPOOL], POOL_B[NPOOL], SS0, SS1;
#endif
static int cv_pool_b_used, cv_freed_a, cv_freed_b, cv_freed_ss;
void* calloc(size_t n, size_t s) {
  CV_LIMIT(s == sizeof(struct Slot) && n <= NPOOL && !cv_pool_b_used, "harness: one rehash allocation of whole slots");
  cv_pool_b_used = 1;
  static const struct Slot cv_zero_pool[NPOOL];
  __CPROVER_array_copy(POOL_B, cv_zero_pool);
  return POOL_B;
}
void free(void* p) {
  if (p == NULL) return;
  if (p == (void*)&SS0 || p == (void*)&SS1) { cv_freed_ss++; return; }
  __CPROVER_assert(p == (void*)POOL_A || p == (void*)POOL_B, "[C05] free of a slot array that was allocated");
  if (p == (void*)POOL_A) { __CPROVER_assert(!cv_freed_a, "[C05] slot array freed once"); cv_freed_a = 1; }
  else { __CPROVER_assert(!cv_freed_b, "[C05] slot array freed once"); cv_freed_b = 1; }
}

static struct { struct Header h; struct Table v; } TO; static struct Table* t;
static OBJ(Elem, KX); static OBJ(Elem, VX); static var kx, vx; static int64_t in_k, in_v, gh_q;
static int old_len; static int old_has_k, old_has_q; static int64_t old_val_k, old_val_q; static int64_t old_ktok, old_vtok;

static struct Slot* slot(struct Table* tt, size_t i) { return &((struct Slot*)tt->data)[i]; }
static uint64_t home_of(int64_t key, size_t n) { return cv_hash_of(key) % n; }

/* ---- the representation invariant ---- */
static int wf_rh_x(struct Table* tt, size_t n, int allow_full) {
  if (tt->nslots != n) return 0;
  if (n == 0) return tt->data == NULL && tt->nitems == 0;
  size_t cnt = 0;
  for (size_t i = 0; i < n; i++) {
    struct Slot* s = slot(tt, i);
    if (s->h == 0) continue;
    cnt++;
    if (s->h - 1 >= n || s->h - 1 != home_of(s->k.val, n)) return 0;              /* stored home is the key's home */
    if (!(s->kh.type == ELEM && s->vh.type == ELEM && s->kh.alloc == (var)AllocData && s->vh.alloc == (var)AllocData)) return 0;
    size_t d = (i + n - (s->h - 1)) % n;
    if (d > 0) {                                                                  /* local robin-hood condition */
      struct Slot* p = slot(tt, (i + n - 1) % n);
      if (p->h == 0) return 0;
      size_t dp = ((i + n - 1) % n + n - (p->h - 1)) % n;
      if (dp + 1 < d) return 0;
    }
    for (size_t k = 0; k < i; k++) if (slot(tt, k)->h != 0 && slot(tt, k)->k.val == s->k.val) return 0;   /* keys pairwise different */
  }
  return cnt == tt->nitems && (cnt < n || (allow_full && cnt == n));
}
static int wf_rh(struct Table* tt, size_t n) { return wf_rh_x(tt, n, 0); }
static int ledger_ok(struct Table* tt, size_t n) {      /* every stored key and value is live */
  for (size_t i = 0; i < n; i++) { struct Slot* s = slot(tt, i); if (s->h != 0 && !(s->k.tok == 1 && s->v.tok == 1)) return 0; }
  return 1;
}
/* abstract view: does the map bind key q, and to what */
static int view_has(struct Table* tt, size_t n, int64_t q, int64_t* val, int64_t* ktok, int64_t* vtok) {
  for (size_t i = 0; i < n; i++) { struct Slot* s = slot(tt, i); if (s->h != 0 && s->k.val == q) { if (val) *val = s->v.val; if (ktok) *ktok = s->k.tok; if (vtok) *vtok = s->v.tok; return 1; } }
  return 0;
}

static int expect_throw; static var expect_exc; static struct Slot SNAP[NPOOL];
static int unchanged(void) {
  if (t->nslots != NS || t->nitems != (size_t)old_len || (NS > 0 && t->data != (var)POOL_A)) return 0;
  for (size_t i = 0; i < NS; i++) { struct Slot* s = slot(t, i); if (s->h != SNAP[i].h || s->k.val != SNAP[i].k.val || s->v.val != SNAP[i].v.val || s->k.tok != SNAP[i].k.tok || s->v.tok != SNAP[i].v.tok) return 0; }
  return 1;
}
static int cv_resize_refusal_expected; static int cv_rehash_calls; static struct Table T3;
void cv_on_throw(var obj) {
  if (obj == OutOfMemoryError) return;
  if (t == &T3) { ASSERT(cv_resize_refusal_expected && obj == FormatError && cv_rehash_calls == 0 && T3.nitems == (size_t)old_len, "[C02][C12] resize is refused with FormatError exactly when the request is below the item count, before anything is rehashed"); return; }
  ASSERT(expect_throw, "[C02][C12] no exception on an operation the map can honour");
  ASSERT(!expect_throw || obj == expect_exc, "[C02][C12] the documented exception kind is raised (KeyError for an absent key)");
  ASSERT(unchanged(), "[C12] a failed operation leaves the Table exactly as it was");
  ASSERT(cv_retired == 0 && cv_issued == 2 * old_len, "[C05][C12] a failed operation neither constructs nor finalises");
}

static void arbitrary_table(void) {
  t = (struct Table*)header_init(&TO.h, Table, AllocHeap);
  { struct Table any_state; *t = any_state; }      /* fields the invariant below does not pin down are arbitrary */
  t->ktype = ELEM; t->vtype = ELEM; t->ksize = sizeof(struct Elem); t->vsize = sizeof(struct Elem);
  t->nslots = NS; t->data = NS ? (var)POOL_A : NULL; t->sspace0 = &SS0; t->sspace1 = &SS1;
  size_t cnt = 0;
  for (size_t i = 0; i < NS; i++) {
    struct Slot* s = &POOL_A[i];
#ifdef OCC
    if ((OCC >> i) & 1) {          /* occupancy pattern enumerated by the driver, contents symbolic */
#else
    if (nondet_bool()) {
#endif
      s->h = nondet_ulong(); s->k.val = nondet_long(); s->v.val = nondet_long();
      header_init(&s->kh, ELEM, AllocData); header_init(&s->vh, ELEM, AllocData);
      s->k.tok = cv_new_token(); s->v.tok = cv_new_token(); cnt++;
    } else { *s = (struct Slot){0}; }
  }
  t->nitems = cnt;
#ifdef GUARD
  POOL_A_[0].h = 0xDEAD; POOL_A_[NS + 1].h = 0xDEAD;
#endif
  __CPROVER_assume(wf_rh(t, NS));
  for (size_t i = 0; i < NS; i++) SNAP[i] = POOL_A[i];
  in_k = nondet_long(); in_v = nondet_long(); gh_q = nondet_long();
#ifdef HOME
  __CPROVER_assume(NS == 0 || home_of(in_k, NS ? NS : 1) == HOME);     /* case split on the operand's home slot (driver enumerates all) */
#endif
  kx = header_init(&KX.h, ELEM, AllocStack); EV(kx) = in_k; ET(kx) = 0;
  vx = header_init(&VX.h, ELEM, AllocStack); EV(vx) = in_v; ET(vx) = 0;
  old_len = (int)cnt;
  old_has_k = view_has(t, NS, in_k, &old_val_k, &old_ktok, &old_vtok);
  old_has_q = view_has(t, NS, gh_q, &old_val_q, NULL, NULL);
}

void h_set_move(void) {
  arbitrary_table();
  __CPROVER_assume(NS > 0);
  COVER(NS <= 1 || (old_has_k), "set of a present key (replace)"); COVER(NS <= 1 || (!old_has_k && old_len >= 2), "set of an absent key into a table with collisions possible");
  COVER(NS <= 1 || (old_len == NS - 1), "set into a table with one free slot");
  Table_Set_Move(t, kx, vx, false);
  ASSERT(t->nslots == NS && t->data == (var)POOL_A, "set_move does not resize");
  ASSERT(t->nitems == (size_t)(old_len + !old_has_k), "[C02] len grows by one exactly when the key was absent");
  int64_t val; int has;
  has = view_has(t, NS, in_k, &val, NULL, NULL);
  ASSERT(has && val == in_v, "[C02] after set(k, v) the map binds k to v");
  has = view_has(t, NS, gh_q, &val, NULL, NULL);
  ASSERT(gh_q == in_k || (has == old_has_q && (!has || val == old_val_q)), "[C02] set(k, v) leaves every other binding unchanged");
  /* wf without the 'one free slot' clause: the table may be full between set_move and the growth check */
  t->nitems = t->nitems; 
  ASSERT(wf_rh_x(t, NS, 1), "[C02] the robin-hood invariant holds after set (keys unique, homes right, probe order) - the table may be full between the insertion and the growth check");
  ASSERT(ledger_ok(t, NS), "[C05] every stored key and value is live and held once");
  ASSERT(cv_issued == 2 * old_len + 2, "[C05] set constructs exactly one key and one value");
  ASSERT(cv_retired == (old_has_k ? 2 : 0), "[C05] replacing a binding finalises the old key and the old value, inserting finalises nothing");
  ASSERT(cv_live_count() == 2 * (int)t->nitems, "[C05] live elements == 2 * len");
}

#ifndef MOVE
#define MOVE 0
#endif
/* set_move(move = true): relocation during a rehash - the entry's bytes are moved, nothing is constructed or finalised */
void h_set_move_moving(void) {
  arbitrary_table();
  __CPROVER_assume(NS > 0 && !old_has_k);          /* rehash only moves keys of the old table, which are pairwise different */
  static struct Slot OLDSLOT;                        /* a slot of the table being rehashed: live key and value */
  header_init(&OLDSLOT.kh, ELEM, AllocData); header_init(&OLDSLOT.vh, ELEM, AllocData);
  OLDSLOT.k.val = in_k; OLDSLOT.v.val = in_v; OLDSLOT.k.tok = cv_new_token(); OLDSLOT.v.tok = cv_new_token();
  COVER(NS <= 1 || (old_len >= 2), "relocation into a table with residents");
  Table_Set_Move(t, &OLDSLOT.k, &OLDSLOT.v, true);
  ASSERT(t->nslots == NS && t->data == (var)POOL_A && t->nitems == (size_t)old_len + 1, "[C02] relocation adds exactly one entry");
  int64_t val, kt, vt; int has;
  has = view_has(t, NS, in_k, &val, &kt, &vt);
  ASSERT(has && val == in_v && kt == 1 && vt == 1, "[C02][C05] the relocated binding arrives intact and live");
  has = view_has(t, NS, gh_q, &val, NULL, NULL);
  ASSERT(gh_q == in_k || (has == old_has_q && (!has || val == old_val_q)), "[C02] relocation leaves every other binding unchanged");
  ASSERT(wf_rh_x(t, NS, 1), "[C02] the robin-hood invariant holds after a relocation");
  ASSERT(ledger_ok(t, NS), "[C05] every stored key and value is live");
  ASSERT(cv_issued == 2 * old_len + 2 && cv_retired == 0, "[C05] relocation neither constructs nor finalises (rehash, displacement)");
}
/* get / mem: agree with the abstract map; absent key: KeyError and the table unchanged */
void h_lookup(void) {
  arbitrary_table();
  COVER(NS <= 1 || (old_has_k), "lookup of a present key"); COVER(NS <= 1 || (!old_has_k && old_len >= 1), "lookup of an absent key in a non-empty table");
  ASSERT(Table_Mem(t, kx) == (old_has_k != 0), "[C02] mem agrees with the abstract map");
  expect_throw = !old_has_k; expect_exc = KeyError;
  var r = Table_Get(t, kx);
  ASSERT(old_has_k, "[C02][C12] get of an absent key raises KeyError");
  ASSERT(EV(r) == old_val_k && cv_is_elem(r) && HDR(r)->alloc == (var)AllocData, "[C02][C19] get returns the bound value, an object of the value type");
  ASSERT(unchanged(), "lookups change nothing");
  ASSERT(Table_Len(t) == (size_t)old_len && Table_Key_Type(t) == ELEM && Table_Val_Type(t) == ELEM, "[C02] len is the number of bindings");
}
/* lookup with one of the table's own embedded objects as the key: a key object handed out by iteration, or a value object handed
 * out by get (following links: get(t, get(t, k))). The map is keyed by value: the answer is the value bound to the key equal to it. */
void h_lookup_own(void) {
  arbitrary_table(); __CPROVER_assume(NS > 0);
  size_t gh_s = nondet_ulong(); __CPROVER_assume(gh_s < NS && slot(t, gh_s)->h != 0);
  bool use_val = nondet_bool();
  var key = use_val ? (var)&slot(t, gh_s)->v : (var)&slot(t, gh_s)->k;
  int64_t want; int has = view_has(t, NS, EV(key), &want, NULL, NULL);
  expect_throw = !has; expect_exc = KeyError;
  COVER(use_val && has, "a value object of the table that is also a key"); COVER(!use_val, "a key object of the table");
  var r = Table_Get(t, key);
  ASSERT(has, "[C02][C12] get of an absent key raises KeyError");
  ASSERT(cv_is_elem(r) && HDR(r)->alloc == (var)AllocData, "[C19] get returns an object of the value type embedded in the table");
  ASSERT(EV(r) == want, "[C02] get with one of the table's own embedded objects as the key returns the value bound to the key equal to it");
  ASSERT(unchanged(), "lookups change nothing");
}
/* rem: removes exactly the binding of k (backward shift keeps wf); shrink rehash is cut by its contract */
static int cv_resize_less_calls; static size_t cv_resize_less_items;
void cv_resize_less(struct Table* tt) { cv_resize_less_calls++; cv_resize_less_items = tt->nitems; }
void h_rem(void) {
  arbitrary_table();
  expect_throw = !old_has_k; expect_exc = KeyError;
  COVER(NS <= 2 || (old_has_k && old_len >= 2), "rem with other residents (backward shift possible)"); COVER(NS <= 1 || (!old_has_k), "rem of an absent key");
  Table_Rem(t, kx);
  ASSERT(old_has_k, "[C02][C12] rem of an absent key raises KeyError");
  ASSERT(t->nitems == (size_t)old_len - 1, "[C02] rem removes exactly one binding");
  int64_t val; int has;
  ASSERT(!view_has(t, NS, in_k, NULL, NULL, NULL), "[C02] after rem(k) the map does not bind k");
  has = view_has(t, NS, gh_q, &val, NULL, NULL);
  ASSERT(gh_q == in_k || (has == old_has_q && (!has || val == old_val_q)), "[C02] rem(k) leaves every other binding unchanged");
  ASSERT(wf_rh(t, NS), "[C02] the robin-hood invariant holds after rem (backward shift)");
  ASSERT(ledger_ok(t, NS), "[C05] every remaining key and value is live");
  ASSERT(cv_retired == 2 && cv_issued == 2 * old_len, "[C05] rem finalises exactly the removed key and value, once each");
  ASSERT(cv_resize_less_calls == 1 && cv_resize_less_items == (size_t)old_len - 1, "[C02] rem checks for shrinking exactly once, after the removal has been counted (the rehash recounts the entries it moves)");
}
/* iteration: every occupied slot exactly once, forwards and backwards, Terminal after len steps */
void h_iter(void) {
  arbitrary_table();
  size_t gh_s = nondet_ulong(); __CPROVER_assume(gh_s < NS || NS == 0);
  int visits = 0, steps = 0; var c = Table_Iter_Init(t);
  for (int n = 0; n < NS && c != Terminal; n++) {
    steps++; if (NS > 0 && c == (var)&slot(t, gh_s)->k) visits++;
    ASSERT(cv_is_elem(c) && HDR(c)->alloc == (var)AllocData, "[C19] iteration yields key objects of the key type");
    c = Table_Iter_Next(t, c);
  }
  ASSERT(c == Terminal && steps == old_len, "[C02][C11] forward iteration ends with Terminal after exactly len keys");
  ASSERT(NS == 0 || visits == (slot(t, gh_s)->h != 0), "[C02][C11] forward iteration yields every key exactly once");
  visits = 0; steps = 0; c = Table_Iter_Last(t);
  for (int n = 0; n < NS && c != Terminal; n++) { steps++; if (NS > 0 && c == (var)&slot(t, gh_s)->k) visits++; c = Table_Iter_Prev(t, c); }
  ASSERT(c == Terminal && steps == old_len, "[C02][C11] backward iteration ends with Terminal after exactly len keys");
  ASSERT(NS == 0 || visits == (slot(t, gh_s)->h != 0), "[C02][C11] backward iteration yields every key exactly once");
  COVER(NS <= 1 || (old_len >= 2), "iteration over several keys");
}
/* clear / resize(0) / del: every key and value finalised once, slot array released; the cleared table is a wf table */
void h_clear(void) {
  arbitrary_table();
  Table_Resize(t, 0);
  ASSERT(cv_retired == 2 * old_len && cv_issued == 2 * old_len, "[C05] clearing finalises every key and every value exactly once");
  ASSERT(wf_rh(t, 0), "[C02] an emptied table is a well-formed (empty) table");
  ASSERT(NS == 0 || cv_freed_a, "[C05][C06] the slot array is released");
  COVER(NS <= 1 || (old_len >= 1), "clear of a non-empty table");
}
void h_del(void) {
  arbitrary_table();
  Table_Del(t);
  ASSERT(cv_retired == 2 * old_len && cv_issued == 2 * old_len, "[C05] deleting a Table finalises every key and every value exactly once");
  ASSERT((NS == 0 || cv_freed_a) && cv_freed_ss == 2, "[C05][C06] the slot array and both swap spaces are released");
  COVER(NS <= 1 || (old_len >= 1), "del of a non-empty table");
}
/* an emptied table keeps working: operations on the cleared representation (NS == 0) */
void h_emptied(void) {
  arbitrary_table();      /* NS == 0 */
  ASSERT(Table_Mem(t, kx) == false && Table_Len(t) == 0 && Table_Iter_Init(t) == Terminal && Table_Iter_Last(t) == Terminal, "[C02] an emptied table is empty");
  Table_Set(t, kx, vx);
  ASSERT(t->nitems == 1 && t->nslots >= 1, "[C02] an emptied table keeps working: set adds the binding");
  int64_t val; ASSERT(view_has(t, t->nslots, in_k, &val, NULL, NULL) && val == in_v, "[C02] an emptied table keeps working: the binding is there");
  COVER(1, "set on an emptied table returns");
}
/* Table_Set = set_move, then the growth check; both callees cut by their contracts */
static int cv_sm_calls, cv_rm_calls, cv_order_ok;
void cv_set_move_stub(var self, var key, var val, bool move) { cv_sm_calls++; cv_order_ok = (cv_rm_calls == 0) && self == (var)t && key == kx && val == vx && move == false; }
void cv_resize_more_stub(struct Table* tt) { cv_rm_calls++; cv_order_ok = cv_order_ok && cv_sm_calls == 1 && tt == t; }
void h_set_compose(void) {
  arbitrary_table(); __CPROVER_assume(NS > 0);
  Table_Set(t, kx, vx);
  ASSERT(cv_sm_calls == 1 && cv_rm_calls == 1 && cv_order_ok, "[C02] set inserts (copying key and value), then checks for growth");
  COVER(1, "set composed");
}
/* rehash: every entry of the old slot array is relocated exactly once (set_move with move = true, cut by its contract),
 * the new array has the requested capacity and the old one is released once */
#ifndef NEWSIZE
#define NEWSIZE 11
#endif
static int cv_moves, cv_moves_of_gh; static size_t gh_slot; static int cv_bad_move;
void cv_set_move_rec(var self, var key, var val, bool move) {
  struct Table* tt = self;
  cv_moves++;
  if (!(move == true && tt == t && tt->nslots == NEWSIZE && tt->data == (var)POOL_B && tt->nitems == (size_t)(cv_moves - 1))) cv_bad_move++;
  if (key == (var)&POOL_A[gh_slot].k && val == (var)&POOL_A[gh_slot].v) cv_moves_of_gh++;
  tt->nitems++;
}
void h_rehash(void) {
  arbitrary_table(); __CPROVER_assume(NS > 0);
  gh_slot = nondet_ulong(); __CPROVER_assume(gh_slot < NS);
  Table_Rehash(t, NEWSIZE);
  ASSERT(t->nslots == NEWSIZE && t->data == (var)POOL_B && cv_pool_b_used, "rehash installs a zeroed slot array of the requested capacity");
  ASSERT(cv_moves == old_len && t->nitems == (size_t)old_len && cv_bad_move == 0, "[C02] rehash relocates every entry, into the new array, with move = true");
  ASSERT(cv_moves_of_gh == (SNAP[gh_slot].h != 0), "[C02][C05] rehash relocates each occupied slot exactly once and no empty slot");
  ASSERT(cv_freed_a && !cv_freed_b, "[C05] rehash releases the old slot array exactly once");
  ASSERT(cv_issued == 2 * old_len && cv_retired == 0, "[C05] rehash neither constructs nor finalises");
  COVER(NS <= 1 || (old_len >= 2), "rehash with several entries");
}
/* growth / shrink policy and Table_Ideal_Size */
static size_t cv_rehash_to;
void cv_rehash_stub(struct Table* tt, size_t n) { cv_rehash_calls++; cv_rehash_to = n; }
void h_policy(void) {
  for (size_t n = 0; n <= 120; n++) {
    size_t r = Table_Ideal_Size(n);
    int listed = 0; for (int i = 0; i < TABLE_PRIMES_COUNT; i++) listed |= (Table_Primes[i] == r);
    ASSERT(r > n && r >= 1 && listed, "[C02] the ideal capacity leaves at least one free slot and is a listed prime");
    ASSERT(n == 0 || r >= Table_Ideal_Size(n - 1), "the ideal capacity is monotone");
  }
  ASSERT(Table_Ideal_Size(0) == 1 && Table_Ideal_Size(1) == 5 && Table_Ideal_Size(4) == 5 && Table_Ideal_Size(5) == 11 && Table_Ideal_Size(9) == 11 && Table_Ideal_Size(10) == 23, "capacities at the first growth steps");
  static struct Table T2; size_t in_items = nondet_ulong(), in_slots = nondet_ulong();
  __CPROVER_assume(in_items <= 120 && in_slots <= 211);
  T2.nitems = in_items; T2.nslots = in_slots;
  Table_Resize_More(&T2);
  ASSERT(cv_rehash_calls == (Table_Ideal_Size(in_items) > in_slots) && (!cv_rehash_calls || cv_rehash_to == Table_Ideal_Size(in_items)), "[C02] growth rehashes to the ideal capacity exactly when it exceeds the current one");
  cv_rehash_calls = 0;
  Table_Resize_Less(&T2);
  ASSERT(cv_rehash_calls == (Table_Ideal_Size(in_items) < in_slots) && (!cv_rehash_calls || cv_rehash_to == Table_Ideal_Size(in_items)), "[C02] shrinking rehashes to the ideal capacity exactly when it is below the current one");
  COVER(1, "policy checked");
}
/* resize(t, n) as a request: fewer than the items held is refused (FormatError, nothing rehashed); anything else rehashes to a capacity
 * that keeps a free slot for the items held (rehash cut by its contract); n == 0 clears */
void h_resize_request(void) {
  size_t in_items = nondet_ulong(), in_slots = nondet_ulong(), in_n = nondet_ulong();
  __CPROVER_assume(in_items <= 120 && in_slots <= 211 && in_n >= 1 && in_n <= 120);
  T3.nitems = in_items; T3.nslots = in_slots; t = &T3; old_len = (int)in_items;
  cv_resize_refusal_expected = (in_n < in_items);
  COVER(in_n < in_items && Table_Ideal_Size(in_n) >= in_items, "a request below the item count whose rounded capacity would still hold the items");
  Table_Resize(&T3, in_n);
  ASSERT(in_n >= in_items, "[C02][C12] resize to fewer than the items held raises FormatError");
  ASSERT(cv_rehash_calls == 1 && cv_rehash_to > in_items && cv_rehash_to >= in_n, "[C02] resize rehashes once, to a capacity with room for the request and a free slot beyond the items held");
}
/* Table_Probe (loop-free): the probe distance of slot i for stored home h */
void h_probe(void) {
  static struct Table T2; uint64_t in_i = nondet_ulong(), in_h = nondet_ulong(); size_t in_n = nondet_ulong();
  __CPROVER_assume(in_n >= 1 && in_n <= (1UL << 40) && in_i < in_n && in_h >= 1 && in_h - 1 < in_n);
  T2.nslots = in_n;
  uint64_t d = Table_Probe(&T2, in_i, in_h);
  ASSERT(d < in_n && (in_h - 1 + d) % in_n == in_i, "[C02] the probe distance is (i - home) mod nslots");
  COVER(NS <= 1 || (in_i < in_h - 1), "probe distance across the wrap-around");
}

/* C01: the container's Mark instance hands every element to the collector's callback, once */
static int cv_mk_calls, cv_mk_hits; static var cv_mk_watch, cv_mk_gc;
static void cv_mark_cb(var g, void* p) { cv_mk_calls++; if (g != cv_mk_gc) cv_mk_calls += 100; if (p == cv_mk_watch) cv_mk_hits++; }
void h_mark(void) {
  arbitrary_table();
  size_t gh_s = nondet_ulong(); __CPROVER_assume(NS == 0 || gh_s < NS); bool watch_val = nondet_bool();
  cv_mk_gc = &KX; cv_mk_watch = NS ? (watch_val ? (var)&slot(t, gh_s)->v : (var)&slot(t, gh_s)->k) : NULL;
  Table_Mark(t, cv_mk_gc, cv_mark_cb);
  ASSERT(cv_mk_calls == 2 * old_len && (NS == 0 || cv_mk_hits == (slot(t, gh_s)->h != 0)), "[C01] Table_Mark passes every stored key and every stored value to the callback exactly once, and nothing from an empty slot");
  COVER(NS <= 1 || old_len >= 1, "mark of a non-empty table");
}
/* C14: show of a map writes "key:value" for every binding exactly once, in iteration order, separated by ", ";
 * each piece goes to the sink at the position the previous one returned (print_to is cut by a recording contract) */
static int cv_sh_calls, cv_sh_pairs, cv_sh_seps, cv_sh_bad, cv_sh_pos; static var cv_sh_out; static var cv_sh_k[8], cv_sh_v[8];
static int cv_sh_streq(const char* a, const char* b) { size_t i = 0; while (a[i] != 0 && a[i] == b[i]) i++; return a[i] == b[i]; }
int print_to_with(var out, int pos, const char* fmt, var args) {
  if (out != cv_sh_out || pos != cv_sh_pos) cv_sh_bad++;
  cv_sh_calls++;
  if (cv_sh_streq(fmt, "%$:%$")) { if (cv_sh_pairs < 8) { cv_sh_k[cv_sh_pairs] = ((struct Tuple*)args)->items[0]; cv_sh_v[cv_sh_pairs] = ((struct Tuple*)args)->items[1]; } if (cv_sh_seps != cv_sh_pairs) cv_sh_bad++; cv_sh_pairs++; }
  else if (cv_sh_streq(fmt, ", ")) { cv_sh_seps++; if (cv_sh_seps != cv_sh_pairs) cv_sh_bad++; }
  cv_sh_pos += 1 + (cv_sh_calls % 3);
  return cv_sh_pos;
}
void h_show(void) {
  arbitrary_table(); cv_sh_out = &KX; cv_sh_pos = nondet_int(); __CPROVER_assume(cv_sh_pos >= 0 && cv_sh_pos < 1000);
  int r = Table_Show(t, cv_sh_out, cv_sh_pos);
  ASSERT(cv_sh_pairs == old_len && cv_sh_seps == (old_len ? old_len - 1 : 0) && cv_sh_bad == 0, "[C14] show of a Table writes every binding once as key:value, separated by commas, each piece at the position the previous one returned");
  int j = 0;
  for (size_t i = 0; i < NS; i++) if (slot(t, i)->h != 0) { ASSERT(j < 8 && cv_sh_k[j] == (var)&slot(t, i)->k && cv_sh_v[j] == (var)&slot(t, i)->v, "[C14] the bindings are shown in iteration order, each key with its own value"); j++; }
  ASSERT(r == cv_sh_pos && cv_sh_calls == cv_sh_pairs + cv_sh_seps + 2, "[C14] show returns the position after the closing brace");
  COVER(NS <= 1 || old_len >= 2, "show of a table with several bindings");
}

/* Table_Assign (copy of another map): the old contents are finalised and released, a fresh zeroed slot array of the ideal
 * capacity is installed and every binding of the operand is inserted once, copying (move = false); set_move by its contract */
#ifndef MOP
#define MOP 2
#endif
static OBJ(Ref, SRCO); static var srco; static struct { struct Header h; struct Elem v; } AK[MOP + 1], AV[MOP + 1];
static var aop_init(var self) { return MOP ? (var)&AK[0].v : Terminal; }
static var aop_next(var self, var curr) { size_t i = ((char*)curr - (char*)&AK[0].v) / sizeof(AK[0]); return i + 1 < MOP ? (var)&AK[i + 1].v : Terminal; }
static struct Iter cv_aop_iter = { aop_init, aop_next, NULL, NULL, NULL };
size_t len(var self) { return MOP; }
var get(var self, var key) { size_t i = ((char*)key - (char*)&AK[0].v) / sizeof(AK[0]); CV_LIMIT(self == srco && i < MOP, "harness: get(operand, key) with a key of the operand"); return &AV[i].v; }
var instance(var self, var cls) { return &cv_aop_iter; }
var method_at_offset(var self, var cls, size_t offset, const char* m) { return &cv_aop_iter; }
bool implements_method_at_offset(var self, var cls, size_t offset) { return true; }
var key_type(var self) { return ELEM; } var val_type(var self) { return ELEM; }
void* realloc(void* p, size_t n) { CV_LIMIT((p == (void*)&SS0 || p == (void*)&SS1) && n == sizeof(struct Slot), "harness: swap spaces resized to one slot"); return p; }
static int cv_asg_calls, cv_asg_bad;
void cv_set_move_asg(var self, var key, var val, bool move) {
  struct Table* tt = self;
  if (!(tt == t && move == false && cv_asg_calls < MOP && key == (var)&AK[cv_asg_calls].v && val == (var)&AV[cv_asg_calls].v && tt->data == (var)POOL_B && tt->nitems == (size_t)cv_asg_calls)) cv_asg_bad++;
  cv_asg_calls++; tt->nitems++;
}
void h_assign(void) {
  arbitrary_table();
  srco = MK(SRCO, Ref, AllocStack);
  for (int i = 0; i < MOP; i++) { header_init(&AK[i].h, ELEM, AllocData); header_init(&AV[i].h, ELEM, AllocData); AK[i].v.val = nondet_long(); AV[i].v.val = nondet_long(); AK[i].v.tok = 1; AV[i].v.tok = 1; }
  Table_Assign(t, srco);
  ASSERT(cv_retired == 2 * old_len, "[C05] assign finalises every key and value the table held before, once each");
  ASSERT(NS == 0 || cv_freed_a, "[C05] assign releases the old slot array");
  ASSERT(t->nslots == Table_Ideal_Size(MOP) && t->data == (var)POOL_B && t->ktype == ELEM && t->vtype == ELEM, "[C02] assign installs a fresh slot array of the ideal capacity with the operand's key and value types");
  ASSERT(cv_asg_calls == MOP && cv_asg_bad == 0 && t->nitems == MOP, "[C02][C05] assign inserts every binding of the operand exactly once, copying key and value (deep copy)");
  COVER(NS <= 1 || old_len >= 1, "assign over a non-empty table");
}
