/* C04/C05/C11/C12/C19, K3: one real Array operation on an arbitrary well-formed Array of concrete length N and capacity S
 * (driver-enumerated) with symbolic element values, over the element model. Postconditions are stated on the whole
 * abstract sequence; the ledger gives exactly-once finalisation; failing calls must raise and change nothing. */
#include "src/Array.c"
#include "contracts/elem.h"

#ifndef N
#define N 2
#endif
#ifndef S
#define S N
#endif
#ifndef IDX
#define IDX 0
#endif
#ifndef M
#define M 2
#endif
#define STEP (sizeof(struct Header) + sizeof(struct Elem))

static struct { struct Header h; struct Array v; } AO; static struct Array* a;
static int64_t in_v[N + 1]; static int64_t in_x; static int64_t old_tok[N + 1];
static OBJ(Elem, X);         /* the operand element (a stack object of the element type) */
static var x;

/* ---- ghost source iterable for concat / assign / cmp: M elements w[0..M) ---- */
static struct { struct Header h; struct Elem v; } W[M + 1]; static int64_t in_w[M + 1]; static OBJ(Ref, SRC); static var src;
static var src_iter_init(var self) { return M == 0 ? Terminal : (var)&W[0].v; }
static var src_iter_next(var self, var curr) { size_t i = ((char*)curr - (char*)&W[0].v) / sizeof(W[0]); return i + 1 < M ? (var)&W[i + 1].v : Terminal; }
static var src_iter_type(var self) { return ELEM; }
static struct Iter cv_src_iter = { src_iter_init, src_iter_next, NULL, NULL, src_iter_type };
size_t len(var self) { CV_LIMIT(self == src, "harness: len of the operand iterable"); return M; }
var get(var self, var key) { CV_LIMIT(self == src, "harness: get of the operand iterable"); int64_t i = c_int(key); __CPROVER_assert(i >= 0 && i < M, "[C04] the operand of concat / assign is read only inside its length"); return &W[i].v; }
var instance(var self, var cls) { CV_LIMIT(self == src && cls == Iter, "harness: instance(operand, Iter)"); return &cv_src_iter; }
var method_at_offset(var self, var cls, size_t offset, const char* m) { CV_LIMIT(self == src && cls == Iter, "harness: method(operand, Iter, ..)"); return &cv_src_iter; }
bool implements_method_at_offset(var self, var cls, size_t offset) { return self == src; }

/* ---- exceptional postcondition ---- */
static int expect_throw; static var expect_exc; static struct Array old_a; static void* old_data;
static int state_unchanged(void) {
  if (a->type != old_a.type || a->tsize != old_a.tsize || a->nitems != N) return 0;
  for (int i = 0; i < N; i++) { var e = Array_Item(a, i); if (EV(e) != in_v[i] || ET(e) != old_tok[i] || !cv_live[old_tok[i]] || !cv_is_elem(e)) return 0; }
  return 1;
}
void cv_on_throw(var obj) {
  if (obj == OutOfMemoryError) return;       /* allocation failure is an environment event */
  ASSERT(expect_throw, "[C04][C12] no exception on an in-range operation");
  ASSERT(!expect_throw || obj == expect_exc, "[C12] the documented exception kind is raised");
  ASSERT(state_unchanged(), "[C12] a failed operation leaves the Array exactly as it was (length, elements, order)");
  ASSERT(cv_issued == N && cv_retired == 0, "[C05][C12] a failed operation neither constructs nor finalises an element");
  ASSERT(a->nitems <= a->nslots, "[C12] capacity invariant holds after a failed operation");
}

static void arbitrary_array(void) {
  a = (struct Array*)header_init(&AO.h, Array, AllocHeap);
  { struct Array any_state; *a = any_state; }      /* fields the invariant below does not pin down are arbitrary */
  a->type = ELEM; a->tsize = sizeof(struct Elem); a->nitems = N; a->nslots = S;
  a->data = S ? malloc(S * STEP) : NULL;
  __CPROVER_assume(S == 0 || a->data != NULL);
  for (int i = 0; i < N; i++) {
    header_init((char*)a->data + STEP * i, ELEM, AllocData);
    in_v[i] = nondet_long(); cv_make_elem(Array_Item(a, i), in_v[i]); old_tok[i] = ET(Array_Item(a, i));
  }
  in_x = nondet_long(); x = header_init(&X.h, ELEM, AllocStack); EV(x) = in_x; ET(x) = 0;
  for (int i = 0; i < M; i++) { header_init(&W[i].h, ELEM, AllocData); in_w[i] = nondet_long(); W[i].v.val = in_w[i]; W[i].v.tok = 0; }
  src = MK(SRC, Ref, AllocStack);
  old_a = *a; old_data = a->data;
}
/* representation invariant + the ledger: every contained element is live, constructed once, tokens pairwise distinct */
static void check_wf(size_t n) {
  ASSERT(a->nitems == n, "[C04] len is the length of the abstract sequence");
  ASSERT(a->nitems <= a->nslots, "capacity invariant: nitems <= nslots");
  ASSERT(a->nslots == 0 ? 1 : __CPROVER_r_ok(a->data, a->nslots * STEP), "the backing store covers the capacity");
  for (size_t i = 0; i < n; i++) {
    var e = Array_Item(a, i);
    ASSERT(cv_is_elem(e) && ALLOC_IS(e, AllocData), "[C19] every element carries (element type, Data) in its header");
    ASSERT(ET(e) > 0 && ET(e) < CV_NTOK && cv_live[ET(e)], "[C05] every contained element is live (never finalised while contained)");
    for (size_t k = 0; k < i; k++) ASSERT(ET(Array_Item(a, k)) != ET(e), "[C05] internal moves never duplicate an element");
  }
  ASSERT((size_t)cv_live_count() == n, "[C05] the number of live elements equals the length (nothing dropped, nothing leaked)");
}
#define VAL(i) EV(Array_Item(a, (i)))

void h_push(void) {
  arbitrary_array();
  Array_Push(a, x);
  check_wf(N + 1);
  for (int j = 0; j < N; j++) ASSERT(VAL(j) == in_v[j] && ET(Array_Item(a, j)) == old_tok[j], "[C04] push keeps the existing elements in order");
  ASSERT(VAL(N) == in_x, "[C04] push appends the new element at the end");
  ASSERT(cv_issued == N + 1 && cv_retired == 0, "[C05] push constructs exactly one element and finalises none");
  ASSERT(EV(x) == in_x && ET(x) == 0, "push leaves its argument alone");
  COVER(a->data != old_data, "push relocates the backing store"); COVER(1, "push returns");
}
void h_pop(void) {
  arbitrary_array();
  expect_throw = (N == 0); expect_exc = IndexOutOfBoundsError;
  COVER(1, "pop called");
  Array_Pop(a);
  ASSERT(N > 0, "[C12] pop from an empty Array raises IndexOutOfBoundsError");
  check_wf(N - 1);
  for (int j = 0; j + 1 < N; j++) ASSERT(VAL(j) == in_v[j] && ET(Array_Item(a, j)) == old_tok[j], "[C04] pop keeps the remaining elements in order");
  ASSERT(cv_retired == 1 && cv_issued == N && !cv_live[old_tok[N > 0 ? N - 1 : 0]], "[C05] pop finalises exactly the removed element, once");
}
void h_push_at(void) {
  arbitrary_array();
  int in_range = (IDX >= 0 && IDX <= N) || (IDX < 0 && IDX >= -(N + 1));
  expect_throw = !in_range; expect_exc = IndexOutOfBoundsError;
  COVER(1, "push_at called");
  Array_Push_At(a, x, $I(IDX));
  ASSERT(in_range, "[C12] push_at with an out-of-range index raises IndexOutOfBoundsError");
  check_wf(N + 1);
  /* non-negative index: insert before position IDX. Negative index counts from the end; the statement leaves open
   * whether relative to the old or the new length, so either position is accepted (DESIGN.md 3.5) */
  int p = -1;
  for (int c = 0; c <= N; c++) {
    int ok = (IDX >= 0) ? (c == IDX) : (c == N + IDX || c == N + 1 + IDX);
    if (!ok) continue;
    int m = (VAL(c) == in_x);
    for (int j = 0; j < N; j++) m = m && VAL(j < c ? j : j + 1) == in_v[j] && ET(Array_Item(a, j < c ? j : j + 1)) == old_tok[j];
    if (m) p = c;
  }
  ASSERT(p >= 0, "[C04] push_at inserts the new element at the requested position and keeps all others in order");
  ASSERT(cv_issued == N + 1 && cv_retired == 0, "[C05] push_at constructs exactly one element and finalises none");
}
void h_pop_at(void) {
  arbitrary_array();
  int in_range = (IDX >= 0 && IDX < N) || (IDX < 0 && IDX >= -N);
  int p = IDX < 0 ? N + IDX : IDX;
  expect_throw = !in_range; expect_exc = IndexOutOfBoundsError;
  COVER(1, "pop_at called");
  Array_Pop_At(a, $I(IDX));
  ASSERT(in_range, "[C12] pop_at with an out-of-range index raises IndexOutOfBoundsError");
  check_wf(N - 1);
  for (int j = 0; j < N; j++) if (j != p) ASSERT(VAL(j < p ? j : j - 1) == in_v[j] && ET(Array_Item(a, j < p ? j : j - 1)) == old_tok[j], "[C04] pop_at removes exactly the addressed element and keeps the others in order");
  ASSERT(cv_retired == 1 && cv_issued == N && !cv_live[old_tok[in_range ? p : 0]], "[C05] pop_at finalises exactly the removed element, once");
}
void h_get_set(void) {
  arbitrary_array();
  int in_range = (IDX >= 0 && IDX < N) || (IDX < 0 && IDX >= -N);
  int p = IDX < 0 ? N + IDX : IDX;
  expect_throw = !in_range; expect_exc = IndexOutOfBoundsError;
  COVER(1, "get called");
  var e = Array_Get(a, $I(IDX));
  ASSERT(in_range, "[C12] get with an out-of-range index raises IndexOutOfBoundsError");
  ASSERT(e == Array_Item(a, p) && EV(e) == in_v[p], "[C04] get(i) is the i-th element (negative i counts from the end)");
  ASSERT(cv_is_elem(e) && ALLOC_IS(e, AllocData) && type_of(e) == ELEM, "[C19] an object obtained from an Array carries the element type");
  Array_Set(a, $I(IDX), x);
  check_wf(N);
  for (int j = 0; j < N; j++) ASSERT(VAL(j) == (j == p ? in_x : in_v[j]) && ET(Array_Item(a, j)) == old_tok[j], "[C04] set replaces exactly the addressed element's value");
  ASSERT(cv_issued == N && cv_retired == 0, "[C05] set assigns in place: nothing constructed, nothing finalised");
}
void h_set_bad(void) {
  arbitrary_array();
  expect_throw = 1; expect_exc = IndexOutOfBoundsError;
  COVER(1, "set called");
  Array_Set(a, $I(IDX), x);
  ASSERT((IDX >= 0 && IDX < N) || (IDX < 0 && IDX >= -N), "[C12] set with an out-of-range index raises IndexOutOfBoundsError");
}
void h_mem_rem(void) {
  arbitrary_array();
  int first = -1; for (int j = N - 1; j >= 0; j--) if (in_v[j] == in_x) first = j;
  ASSERT(Array_Mem(a, x) == (first >= 0), "[C04] mem agrees with the abstract sequence");
  expect_throw = (first < 0); expect_exc = ValueError;
  COVER(first < 0, "rem of an absent element"); COVER(N < 2 || first > 0, "rem of an element that is not the first"); COVER(N < 2 || (first == 0 && in_v[1] == in_x), "rem with duplicates");
  Array_Rem(a, x);
  ASSERT(first >= 0, "[C12] rem of an absent element raises ValueError");
  check_wf(N - 1);
  for (int j = 0; j < N; j++) if (j != first) ASSERT(VAL(j < first ? j : j - 1) == in_v[j] && ET(Array_Item(a, j < first ? j : j - 1)) == old_tok[j], "[C04] rem deletes the first element equal to its argument and nothing else");
  ASSERT(cv_retired == 1 && !cv_live[old_tok[first >= 0 ? first : 0]], "[C05] rem finalises exactly the removed element, once");
}
void h_resize(void) {     /* resize to IDX (>= 0) */
  arbitrary_array();
  Array_Resize(a, IDX);
  size_t n = IDX < N ? IDX : N;
  check_wf(n);
  for (size_t j = 0; j < n; j++) ASSERT(VAL(j) == in_v[j] && ET(Array_Item(a, j)) == old_tok[j], "[C04] resize keeps the surviving prefix");
  ASSERT(cv_retired == N - (int)n && cv_issued == N, "[C05] resize finalises exactly the truncated elements, each once");
  for (size_t j = n; j < N; j++) ASSERT(!cv_live[old_tok[j]], "[C05] every truncated element was finalised");
  ASSERT(IDX != 0 || (a->data == NULL && a->nslots == 0), "resize(0) releases the backing store");
  ASSERT(IDX == 0 || a->nslots == IDX, "resize(n) sets the capacity");
  COVER(1, "resize returns");
}
void h_del(void) {
  arbitrary_array();
  Array_Del(a);
  ASSERT(cv_retired == N && cv_live_count() == 0, "[C05][C06] deleting an Array finalises every element exactly once");
  /* release of the backing store: cbmc --memory-leak-check on this job */
  COVER(1, "del returns");
}
void h_concat(void) {
  arbitrary_array();
  Array_Concat(a, src);
  check_wf(N + M);
  for (int j = 0; j < N; j++) ASSERT(VAL(j) == in_v[j] && ET(Array_Item(a, j)) == old_tok[j], "[C04] concat keeps the existing elements in order");
  for (int j = 0; j < M; j++) ASSERT(VAL(N + j) == in_w[j], "[C04] concat appends the operand's elements in order");
  for (int j = 0; j < M; j++) ASSERT(W[j].v.val == in_w[j] && W[j].v.tok == 0, "[C05] concat copies: the operand's elements are left alone");
  ASSERT(cv_issued == N + M && cv_retired == 0, "[C05] concat constructs one element per operand element");
  COVER(1, "concat returns");
}
void h_assign(void) {
  arbitrary_array();
  Array_Assign(a, src);
  check_wf(M);
  for (int j = 0; j < M; j++) ASSERT(VAL(j) == in_w[j], "[C04][C10] assign makes the Array equal to the operand, element by element");
  for (int j = 0; j < N; j++) ASSERT(!cv_live[old_tok[j]], "[C05] assign finalises every previous element");
  ASSERT(cv_retired == N && cv_issued == N + M, "[C05] assign finalises the old elements once each and constructs one per operand element");
  for (int j = 0; j < M; j++) ASSERT((char*)Array_Item(a, j) != (char*)&W[j].v && W[j].v.val == in_w[j], "[C05] assign is deep: no element of the operand is shared");
  ASSERT(a->type == ELEM, "[C19] the copy carries the operand's element type");
  COVER(1, "assign returns");
}
static bool cv_lt(var p, var q) { return EV(p) < EV(q); }
void h_sort(void) {
  arbitrary_array();
  int64_t gh_v = nondet_long(); int before = 0, after = 0;
  for (int j = 0; j < N; j++) before += (in_v[j] == gh_v);
  Array_Sort_By(a, cv_lt);
  check_wf(N);
  for (int j = 0; j + 1 < N; j++) ASSERT(VAL(j) <= VAL(j + 1), "[C04] sort orders the elements by the comparison function");
  for (int j = 0; j < N; j++) after += (VAL(j) == gh_v);
  ASSERT(before == after, "[C04] sort leaves a permutation of the previous contents (every value keeps its multiplicity)");
  ASSERT(cv_issued == N && cv_retired == 0, "[C05] sort swaps neither construct nor finalise");
  COVER(N < 2 || in_v[0] > in_v[1], "sort has work to do"); COVER(N < 2 || in_v[0] == in_v[1], "sort with duplicates");
}

/* ---- C04 sort, modular (lengths beyond what the monolithic h_sort reaches) ----
 * (P) contract of Array_Sort_Partition on a concrete range [SL, SR]: returns s in the range, everything before s compares
 *     below the element at s, nothing after it does, the range is a permutation of what it was, the rest is untouched;
 * (S) Array_Sort_Part on [SL, SR] with the partition cut by (P) and the two recursive calls cut by the contract of
 *     Array_Sort_Part itself on strictly shorter ranges (well-founded induction on the range length): the range ends up
 *     ordered and a permutation, the rest untouched. The body is the text of the function extracted from /repo on every run with only the name in its
 *     definition line changed, so that --replace-calls cuts the inner calls and the harness enters the body. (C) Array_Sort_By calls Array_Sort_Part(a, 0, len-1, f) once. */
#ifndef SL
#define SL 0
#endif
#ifndef SR
#define SR (N - 1)
#endif
static int64_t gh_sv; static int cv_before_in, cv_before_out;
static int count_in(int64_t lo, int64_t hi) { int c = 0; for (int j = 0; j < N; j++) if (j >= lo && j <= hi && VAL(j) == gh_sv) c++; return c; }
static int rest_untouched(int64_t lo, int64_t hi) { for (int j = 0; j < N; j++) if ((j < lo || j > hi) && (VAL(j) != in_v[j] || ET(Array_Item(a, j)) != old_tok[j])) return 0; return 1; }
/* a symbolic permutation of the elements (values and ledger tokens) in [l, r] */
static void cv_permute(int64_t l, int64_t r) {
  struct Elem tmp[N + 1]; int p[N + 1];
  for (int i = 0; i < N; i++) if (i >= l && i <= r) {
    p[i] = nondet_int(); __CPROVER_assume(p[i] >= l && p[i] <= r);
    for (int k = 0; k < i; k++) if (k >= l) __CPROVER_assume(p[k] != p[i]);
    tmp[i] = *(struct Elem*)Array_Item(a, p[i]);
  }
  for (int i = 0; i < N; i++) if (i >= l && i <= r) *(struct Elem*)Array_Item(a, i) = tmp[i];
}
static int cv_part_calls, cv_rec_calls, cv_stub_bad;
size_t cv_partition_stub(struct Array* aa, int64_t l, int64_t r, bool(*f)(var,var)) {      /* (P) */
  cv_part_calls++;
  if (!(aa == a && l == SL && r == SR && l < r && f == cv_lt)) { cv_stub_bad++; return l; }
  cv_permute(l, r);
  int64_t s = nondet_long(); __CPROVER_assume(s >= l && s <= r);
  for (int j = 0; j < N; j++) { if (j >= l && j < s) __CPROVER_assume(VAL(j) < VAL(s)); if (j > s && j <= r) __CPROVER_assume(!(VAL(j) < VAL(s))); }
  return (size_t)s;
}
void cv_sort_part_stub(struct Array* aa, int64_t l, int64_t r, bool(*f)(var,var)) {       /* (S) as induction hypothesis */
  cv_rec_calls++;
  if (!(aa == a && f == cv_lt && l >= SL && r <= SR && (r - l) < (SR - SL))) { cv_stub_bad++; return; }
  if (l >= r) return;
  cv_permute(l, r);
  for (int j = 0; j + 1 < N; j++) if (j >= l && j + 1 <= r) __CPROVER_assume(!(VAL(j + 1) < VAL(j)));
}
void h_sort_partition(void) {
  arbitrary_array(); gh_sv = nondet_long(); int before = count_in(SL, SR);
  size_t s = Array_Sort_Partition(a, SL, SR, cv_lt);
  check_wf(N);
  ASSERT((int64_t)s >= SL && (int64_t)s <= SR, "[C04] partition returns a position inside the range");
  for (int j = SL; j <= SR; j++) { if (j < (int64_t)s) ASSERT(VAL(j) < VAL(s), "[C04] everything before the pivot position compares below the pivot"); if (j > (int64_t)s) ASSERT(!(VAL(j) < VAL(s)), "[C04] nothing after the pivot position compares below the pivot"); }
  ASSERT(count_in(SL, SR) == before && rest_untouched(SL, SR), "[C04] partition permutes the range and touches nothing outside it");
  ASSERT(cv_issued == N && cv_retired == 0, "[C05] partition swaps neither construct nor finalise");
  COVER(1, "partition returns");
}
#ifdef CV_SORT_BODY
#include "gen_sort_part.h"      /* Array_Sort_Part_body: the text of Array_Sort_Part extracted from /repo on this run, definition line renamed */
#endif
void h_sort_part(void) {
  arbitrary_array(); gh_sv = nondet_long(); int before = count_in(SL, SR);
#ifdef CV_SORT_BODY
  Array_Sort_Part_body(a, SL, SR, cv_lt);
#endif
  check_wf(N);
  ASSERT(cv_stub_bad == 0, "[C04] sort partitions exactly its own range and recurses only into strictly shorter sub-ranges of it (termination, frame)");
  for (int j = SL; j + 1 <= SR; j++) ASSERT(!(VAL(j + 1) < VAL(j)), "[C04] sort orders the range by the comparison function");
  ASSERT(count_in(SL, SR) == before && rest_untouched(SL, SR), "[C04] sort leaves a permutation of the range and touches nothing outside it");
  ASSERT(cv_issued == N && cv_retired == 0, "[C05] sort neither constructs nor finalises");
  COVER(cv_part_calls == 1 && cv_rec_calls == 2, "partitioned once, recursed twice");
}
void cv_sort_part_top(struct Array* aa, int64_t l, int64_t r, bool(*f)(var,var)) { cv_rec_calls++; if (!(aa == a && l == 0 && r == (int64_t)N - 1 && f == cv_lt)) cv_stub_bad++; }
void h_sort_by(void) {
  arbitrary_array();
  Array_Sort_By(a, cv_lt);
  ASSERT(cv_rec_calls == 1 && cv_stub_bad == 0, "[C04] sort_by sorts the whole sequence: Array_Sort_Part(a, 0, len-1, f), once");
  COVER(1, "sort_by returns");
}
void h_iter(void) {
  arbitrary_array();
  var c = Array_Iter_Init(a); int n = 0;
  for (int j = 0; j < N; j++) { ASSERT(c == Array_Item(a, j), "[C11] forward iteration yields the i-th element at step i"); n++; c = Array_Iter_Next(a, c); }
  ASSERT(c == Terminal, "[C11] forward iteration ends with Terminal after exactly len items");
  c = Array_Iter_Last(a);
  for (int j = N - 1; j >= 0; j--) { ASSERT(c == Array_Item(a, j), "[C11] backward iteration yields the same items in reverse order"); c = Array_Iter_Prev(a, c); }
  ASSERT(c == Terminal, "[C11] backward iteration ends with Terminal after exactly len items");
  ASSERT(Array_Iter_Type(a) == ELEM && Array_Len(a) == N, "[C11] iter_type and len agree with the contents");
  COVER(1, "iteration done");
}
void h_hash_cmp(void) {
  arbitrary_array();
  uint64_t h = 0; for (int j = 0; j < N; j++) h ^= cv_hash_of(in_v[j]);
  ASSERT(Array_Hash(a) == h, "[C10] the hash of an Array is the XOR of its elements' hashes (order-independent, a function of the contents)");
  int want = 0;
  for (int j = 0; j < N || j < M; j++) {
    if (j >= N) { want = -1; break; } if (j >= M) { want = 1; break; }
    if (in_v[j] < in_w[j]) { want = -1; break; } if (in_v[j] > in_w[j]) { want = 1; break; }
  }
  ASSERT(Array_Cmp(a, src) == want, "[C09] cmp on Array is the lexicographic order over the elements, shorter prefix first");
  COVER(want == 0 || N != M || N == 0, "equal sequences");
}

/* C01: the container's Mark instance hands every element to the collector's callback, once */
static int cv_mk_calls, cv_mk_hits; static var cv_mk_watch, cv_mk_gc;
static void cv_mark_cb(var g, void* p) { cv_mk_calls++; if (g != cv_mk_gc) cv_mk_calls += 100; if (p == cv_mk_watch) cv_mk_hits++; }
void h_mark(void) {
  arbitrary_array();
  size_t gh_j = nondet_ulong(); __CPROVER_assume(N == 0 || gh_j < N);
  cv_mk_gc = &X; cv_mk_watch = N ? Array_Item(a, gh_j) : NULL;
  Array_Mark(a, cv_mk_gc, cv_mark_cb);
  ASSERT(cv_mk_calls == N && (N == 0 || cv_mk_hits == 1), "[C01] Array_Mark passes every element to the callback exactly once");
  COVER(1, "mark done");
}

/* C14: show of a container writes each element's own show text exactly once, in iteration order, separated by ", ";
 * the position returned by each piece is the position of the next (print_to is cut by a recording contract) */
static int cv_sh_calls, cv_sh_elems, cv_sh_seps, cv_sh_bad, cv_sh_pos; static var cv_sh_out; static var cv_sh_seq[8];
static int cv_sh_streq(const char* a, const char* b) { size_t i = 0; while (a[i] != 0 && a[i] == b[i]) i++; return a[i] == b[i]; }
int print_to_with(var out, int pos, const char* fmt, var args) {
  if (out != cv_sh_out || pos != cv_sh_pos) cv_sh_bad++;
  cv_sh_calls++;
  if (cv_sh_streq(fmt, "%$")) { if (cv_sh_elems < 8) cv_sh_seq[cv_sh_elems] = ((struct Tuple*)args)->items[0]; if (cv_sh_seps != cv_sh_elems - (cv_sh_elems > 0 ? 0 : 0) && cv_sh_seps != cv_sh_elems) cv_sh_bad++; cv_sh_elems++; }
  else if (cv_sh_streq(fmt, ", ")) { cv_sh_seps++; if (cv_sh_seps != cv_sh_elems) cv_sh_bad++; }
  cv_sh_pos += 1 + (cv_sh_calls % 3);
  return cv_sh_pos;
}
void h_show(void) {
  arbitrary_array(); cv_sh_out = &X; cv_sh_pos = nondet_int(); __CPROVER_assume(cv_sh_pos >= 0 && cv_sh_pos < 1000); int p0 = cv_sh_pos;
  int r = Array_Show(a, cv_sh_out, p0);
  ASSERT(cv_sh_elems == N && cv_sh_seps == (N ? N - 1 : 0) && cv_sh_bad == 0, "[C14] show of an Array writes every element's show text once, in order, separated by commas, each piece at the position the previous one returned");
  for (int j = 0; j < N; j++) ASSERT(cv_sh_seq[j] == Array_Item(a, j), "[C14] the j-th text shown is the j-th element's");
  ASSERT(r == cv_sh_pos && cv_sh_calls == N + (N ? N - 1 : 0) + 2, "[C14] show returns the position after the closing bracket");
  COVER(1, "show done");
}
