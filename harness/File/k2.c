/* C20, K2: File wrappers against a ghost typestate of stdio handles (assumed contracts: fopen returns NULL or a
 * fresh open handle; fclose requires an open handle and closes it even when it reports an error; every other
 * stdio call requires an open handle). Representation invariant of a File object: file == NULL or open(file). */
#include "src/File.c"
#include "contracts/common.h"
#include "contracts/typescan.h"

/* ---- ghost stdio ---- */
static FILE cv_pool[3]; static int cv_open[3];
static int cv_calls, cv_fclose_calls, cv_fopen_calls; static int cv_bad_handle;
static const char *cv_fopen_name, *cv_fopen_mode;
static long cv_seek_pos; static int cv_seek_origin; static void* cv_io_buf; static size_t cv_io_size, cv_io_n; static const char* cv_fmt;
static int cv_ret_int; static long cv_ret_long; static size_t cv_ret_size; static int cv_feof_ret;
static int idx(FILE* h) { return h == &cv_pool[0] ? 0 : h == &cv_pool[1] ? 1 : h == &cv_pool[2] ? 2 : -1; }
static int is_open(FILE* h) { int i = idx(h); return i >= 0 && cv_open[i]; }
#define NEED_OPEN(h, what) do { cv_calls++; if (!is_open(h)) cv_bad_handle++; __CPROVER_assert(is_open(h), what " on an open handle only (never a stale or NULL handle)"); } while (0)
static FILE* cv_owned;      /* the stream the File object under test held when the operation started */
FILE* fopen(const char* name, const char* mode) {
  cv_calls++; cv_fopen_calls++; cv_fopen_name = name; cv_fopen_mode = mode;
  __CPROVER_assert(cv_owned == NULL || !is_open(cv_owned), "[C20] reopening closes the previous stream before the new one is opened (no two streams of one File at once, buffered data is flushed first)");
  if (nondet_bool()) return NULL;
  int i = nondet_int(); __CPROVER_assume(i >= 0 && i < 3 && !cv_open[i]);
  cv_open[i] = 1; return &cv_pool[i];
}
int fclose(FILE* h) { NEED_OPEN(h, "fclose"); cv_fclose_calls++; int i = idx(h); if (i >= 0) cv_open[i] = 0; return cv_ret_int; }
int fseek(FILE* h, long pos, int origin) { NEED_OPEN(h, "fseek"); cv_seek_pos = pos; cv_seek_origin = origin; return cv_ret_int; }
long ftell(FILE* h) { NEED_OPEN(h, "ftell"); return cv_ret_long; }
int fflush(FILE* h) { NEED_OPEN(h, "fflush"); return cv_ret_int; }
int feof(FILE* h) { NEED_OPEN(h, "feof"); cv_calls--; return cv_feof_ret; }
size_t fread(void* p, size_t s, size_t n, FILE* h) { NEED_OPEN(h, "fread"); cv_io_buf = p; cv_io_size = s; cv_io_n = n; return cv_ret_size; }
size_t fwrite(const void* p, size_t s, size_t n, FILE* h) { NEED_OPEN(h, "fwrite"); cv_io_buf = (void*)p; cv_io_size = s; cv_io_n = n; return cv_ret_size; }
int vfprintf(FILE* h, const char* fmt, va_list va) { NEED_OPEN(h, "vfprintf"); cv_fmt = fmt; return cv_ret_int; }
int vfscanf(FILE* h, const char* fmt, va_list va) { NEED_OPEN(h, "vfscanf"); cv_fmt = fmt; return cv_ret_int; }

/* dispatch cut: c_str on the two String arguments of File_Open (contract of c_str on String, C09/C16) */
char* c_str(var self) { return ((struct String*)self)->val; }

/* ---- an arbitrary File object satisfying the invariant ---- */
static OBJ(File, F); static struct File* f; static int in_state; static FILE* old_file;
static int expect_throw, opens_ok;
#define INV (f->file == NULL || is_open(f->file))
static void arbitrary_file(void) {
  f = MK(F, File, AllocStack);
  cv_open[0] = nondet_bool(); cv_open[1] = nondet_bool(); cv_open[2] = nondet_bool();   /* other streams of the program */
  in_state = nondet_int(); __CPROVER_assume(in_state >= 0 && in_state <= 3);
  if (in_state == 0) { f->file = NULL; } else { f->file = &cv_pool[in_state - 1]; cv_open[in_state - 1] = 1; }
  old_file = f->file; cv_owned = f->file;
  cv_ret_int = nondet_int(); cv_ret_long = nondet_long(); cv_ret_size = nondet_ulong(); cv_feof_ret = nondet_int();
}
void cv_on_throw(var obj) {
  ASSERT(obj == IOError, "[C20][C12] File operations fail with IOError only");
  ASSERT(expect_throw, "no IOError on an operation that succeeds");
  ASSERT(INV, "[C20][C12] after a failed operation the File is closed or still holds an open handle (never a stale one)");
  ASSERT(old_file != NULL || opens_ok || cv_calls == 0, "[C20][C12] an operation on a File that is not open calls no stdio function");
}
#define CLOSED_CASE (old_file == NULL)

#define OP_HARNESS(name, call, errcond, haserr, post) \
void h_##name(void) { arbitrary_file(); int64_t in_pos = nondet_long(); int in_origin = nondet_int(); size_t in_size = nondet_ulong(); char buf[4]; \
  expect_throw = CLOSED_CASE || (errcond); \
  COVER(CLOSED_CASE, #name " on a closed File"); COVER(!haserr || (!CLOSED_CASE && (errcond)), #name " stdio error"); \
  call; \
  ASSERT(!CLOSED_CASE && !(errcond), #name " returns normally only on an open File without stdio error"); \
  ASSERT(f->file == old_file && is_open(f->file), #name " keeps the stream open"); \
  ASSERT(cv_fclose_calls == 0 && cv_fopen_calls == 0, #name " neither opens nor closes"); \
  post; COVER(1, #name " success path"); }

OP_HARNESS(Seek, File_Seek(f, in_pos, in_origin), cv_ret_int != 0, 1, ASSERT(cv_calls == 1 && cv_seek_pos == in_pos && cv_seek_origin == in_origin, "sseek passes position and origin to fseek unchanged"))
OP_HARNESS(Tell, int64_t r = File_Tell(f), cv_ret_long == -1, 1, ASSERT(cv_calls == 1 && r == cv_ret_long, "stell returns ftell's answer"))
OP_HARNESS(Flush, File_Flush(f), cv_ret_int != 0, 1, ASSERT(cv_calls == 1, "sflush calls fflush once"))
OP_HARNESS(EOF, bool r = File_EOF(f), 0, 0, ASSERT(r == (cv_feof_ret != 0), "seof agrees with feof"))
OP_HARNESS(Read, size_t r = File_Read(f, buf, in_size), (cv_ret_size != 1 && in_size != 0 && !cv_feof_ret), 1, ASSERT(cv_calls == 1 && cv_io_buf == buf && cv_io_size == in_size && cv_io_n == 1 && r == cv_ret_size, "sread passes buffer and size to fread unchanged"))
OP_HARNESS(Write, size_t r = File_Write(f, buf, in_size), (cv_ret_size != 1 && in_size != 0), 1, ASSERT(cv_calls == 1 && cv_io_buf == buf && cv_io_size == in_size && cv_io_n == 1 && r == cv_ret_size, "swrite passes buffer and size to fwrite unchanged"))

static int call_format_to(var self, int pos, const char* fmt, ...) { va_list va; va_start(va, fmt); int r = File_Format_To(self, pos, fmt, va); va_end(va); return r; }
static int call_format_from(var self, int pos, const char* fmt, ...) { va_list va; va_start(va, fmt); int r = File_Format_From(self, pos, fmt, va); va_end(va); return r; }
OP_HARNESS(Format_To, int r = call_format_to(f, 0, "%i", 1), 0, 0, ASSERT(cv_calls == 1 && r == cv_ret_int && cv_fmt != NULL, "format_to hands the format to vfprintf on the open handle"))
OP_HARNESS(Format_From, int r = call_format_from(f, 0, "%i", &in_origin), 0, 0, ASSERT(cv_calls == 1 && r == cv_ret_int && cv_fmt != NULL, "format_from hands the format to vfscanf on the open handle"))

void h_Close(void) {
  arbitrary_file();
  expect_throw = CLOSED_CASE || cv_ret_int != 0;
  COVER(CLOSED_CASE, "sclose on a closed File"); COVER(!CLOSED_CASE && cv_ret_int != 0, "fclose reports an error");
  File_Close(f);
  ASSERT(!CLOSED_CASE, "sclose on a File that is not open raises IOError");
  ASSERT(cv_fclose_calls == 1 && cv_calls == 1, "sclose closes the underlying stream exactly once");
  ASSERT(f->file == NULL, "after sclose the File is not open");
  ASSERT(!is_open(old_file), "the stream that was open is closed");
  COVER(1, "sclose success");
}
void h_Del(void) {
  arbitrary_file();
  expect_throw = !CLOSED_CASE && cv_ret_int != 0;
  File_Del(f);
  ASSERT(cv_fclose_calls == (CLOSED_CASE ? 0 : 1) && cv_calls == cv_fclose_calls, "del closes the underlying stream exactly once if it is open, and does nothing else");
  ASSERT(f->file == NULL, "after del the File holds no handle");
  COVER(CLOSED_CASE, "del of a closed File"); COVER(!CLOSED_CASE, "del of an open File");
}
void h_Open(void) {
  arbitrary_file();
  OBJ(String, N); OBJ(String, M); struct String* n = MK(N, String, AllocStack); struct String* m = MK(M, String, AllocStack);
  n->val = nondet_ptr(); m->val = nondet_ptr();
  expect_throw = 1; opens_ok = 1;   /* fopen may fail, fclose of the previous stream may fail */
  var r = File_Open(f, n, m);
  ASSERT(r == f, "sopen returns the File");
  ASSERT(cv_fclose_calls == (CLOSED_CASE ? 0 : 1), "reopening closes the previous stream exactly once first");
  ASSERT(cv_fopen_calls == 1 && cv_fopen_name == n->val && cv_fopen_mode == m->val, "sopen passes name and mode to fopen");
  ASSERT(f->file != NULL && is_open(f->file), "after a successful sopen the File holds an open handle");
  ASSERT(CLOSED_CASE || !is_open(old_file) || f->file == old_file, "the previous stream is not left open");
  COVER(!CLOSED_CASE, "reopen"); COVER(CLOSED_CASE, "first open");
}
/* end of a with block: stop_in(f) -> File's Start.stop = File_Close, through the real wiring table */
void h_with(void) {
  arbitrary_file(); __CPROVER_assume(!CLOSED_CASE);
  expect_throw = cv_ret_int != 0;
  struct Start* s = (struct Start*)cv_decl(File, "Start");
  ASSERT(s->start == NULL && s->stop == File_Close, "File's Start instance: entering a with block does nothing, leaving it closes the File");
  s->stop(f);
  ASSERT(cv_fclose_calls == 1 && f->file == NULL, "leaving a with block closes the stream exactly once");
  COVER(1, "with end");
}
