/* C17/C06/C01, K3: the collector's registry (robin-hood table of GCEntry) of concrete capacity NS with fully symbolic
 * contents; registered pointers are drawn from one 64-cell pool object so that the real GC_Hash (>> 3) and % nslots stay
 * exact. One real function per obligation set; callees that recurse or finalise are cut by recording stubs. */
#include "src/GC.c"
#include "contracts/common.h"

#ifndef NS
#define NS 3
#endif
/* header_init per its K1 contract (C19.header_init.k1); Alloc.c is not linked because destruct/dealloc are cut here */
var header_init(var head, var type, int alloc) {
  struct Header* self = head; self->type = type; self->alloc = (var)(intptr_t)alloc; self->magic = (var)CELLO_MAGIC_NUM;
  return ((char*)self) + sizeof(struct Header);
}
static var CELLS[64];                           /* the address pool: 64 consecutive 8-byte cells */
#define CELL(k) ((var)&CELLS[(k)])
static struct GCEntry ENT_A[12], ENT_B[12]; static var FREELIST[4];
static int cv_pool_b_used, cv_freed_a, cv_freed_b, cv_freed_fl, cv_reallocs;
void* calloc(size_t n, size_t s) { CV_LIMIT(s == sizeof(struct GCEntry) && n <= 12 && !cv_pool_b_used, "harness: one rehash allocation"); cv_pool_b_used = 1; static const struct GCEntry z[12]; __CPROVER_array_copy(ENT_B, z); return ENT_B; }
void* realloc(void* p, size_t n) { cv_reallocs++; CV_LIMIT((p == NULL || p == (void*)FREELIST) && n <= sizeof(FREELIST), "harness: freelist large enough"); return FREELIST; }
void free(void* p) {
  if (p == NULL) return;
  if (p == (void*)ENT_A) { __CPROVER_assert(!cv_freed_a, "[C06] the slot array is freed once"); cv_freed_a = 1; return; }
  if (p == (void*)ENT_B) { __CPROVER_assert(!cv_freed_b, "[C06] the slot array is freed once"); cv_freed_b = 1; return; }
  if (p == (void*)FREELIST) { cv_freed_fl++; return; }
  __CPROVER_assert(0, "[C06] free of something the collector allocated");
}
/* finalisation sinks: destruct then dealloc on a managed object */
static int cv_destructs, cv_deallocs, cv_destructs_q, cv_deallocs_q, cv_order_bad; static var gh_q; static var cv_last_destruct;
static int cv_reenter; static var cv_reenter_target; static struct GC* cv_gc;
static void GC_Rem(var self, var key);
var destruct(var x) {
  cv_destructs++; if (x == gh_q) cv_destructs_q++; cv_last_destruct = x;
#ifndef CV_REENTER_CUT
  if (cv_reenter == 1 && x == cv_reenter_target) { cv_reenter = 0; /* an owner (Box) deleting what it owns: del(owned) -> rem(current(GC), owned) */ GC_Rem(cv_gc, gh_q); }
#else
  if (cv_reenter == 2 && x == cv_reenter_target) {
    /* the owner's destructor calls del(owned); its effect on the collector is GC_Rem_Ptr's contract (obligation set rem_ptr): an object pending in
     * the running sweep is struck from the pending list and finalised and released exactly once; one already finalised is not touched */
    cv_reenter = 0;
    int k = (cv_gc->freenum > 0 && FREELIST[0] == gh_q) ? 0 : (cv_gc->freenum > 1 && FREELIST[1] == gh_q) ? 1 : (cv_gc->freenum > 2 && FREELIST[2] == gh_q) ? 2 : (cv_gc->freenum > 3 && FREELIST[3] == gh_q) ? 3 : -1;
    if (k >= 0) { FREELIST[k] = NULL; cv_destructs++; cv_destructs_q++; cv_deallocs++; cv_deallocs_q++; }
  }
#endif
  return x;
}
void dealloc(var x) { cv_deallocs++; if (x == gh_q) cv_deallocs_q++; if (x != cv_last_destruct && !cv_reenter_target) cv_order_bad++; }
int64_t c_int(var x) { return ((struct Int*)x)->val; }
void cv_on_throw(var obj) { ASSERT(obj == OutOfMemoryError, "no exception from the collector"); }
/* recursion cuts */
static int cv_recurse_calls; static var cv_recurse_arg; static int cv_recurse_q;
void cv_recurse(struct GC* gc, var ptr) { cv_recurse_calls++; cv_recurse_arg = ptr; if (ptr == gh_q) cv_recurse_q++; }
static int cv_resize_less_calls, cv_resize_more_calls, cv_mark_calls, cv_sweep_calls, cv_seq_bad;
static size_t cv_resize_less_items;
void cv_resize_less(struct GC* gc) { cv_resize_less_calls++; cv_resize_less_items = gc->nitems; }
void cv_resize_more(struct GC* gc) { cv_resize_more_calls++; }
void cv_mark_stub(struct GC* gc) { cv_mark_calls++; if (cv_sweep_calls) cv_seq_bad++; }
void cv_sweep_stub(struct GC* gc) { cv_sweep_calls++; if (cv_mark_calls != 1) cv_seq_bad++; }

static struct { struct Header h; struct GC v; } GO; static struct GC* gc;
static struct GCEntry SNAP[12]; static int old_n; static unsigned in_k; static var in_p; static bool in_root;
static int old_has_p, old_has_q; static bool old_root_q, old_marked_q, old_marked_p, old_root_p;

static int wf_gc_x(struct GC* g, size_t n, int marks_clear, int allow_full) {
  if (g->nslots != n) return 0;
  size_t cnt = 0;
  for (size_t i = 0; i < n; i++) {
    struct GCEntry* e = &g->entries[i];
    if (e->hash == 0) continue;
    cnt++;
    if (e->hash - 1 >= n || e->hash - 1 != (((uintptr_t)e->ptr) >> 3) % n) return 0;
    if ((uintptr_t)e->ptr < g->minptr || (uintptr_t)e->ptr > g->maxptr) return 0;
    if (marks_clear && e->marked) return 0;
    size_t d = (i + n - (e->hash - 1)) % n;
    if (d > 0) {
      struct GCEntry* p = &g->entries[(i + n - 1) % n];
      if (p->hash == 0) return 0;
      size_t dp = ((i + n - 1) % n + n - (p->hash - 1)) % n;
      if (dp + 1 < d) return 0;
    }
    for (size_t k = 0; k < i; k++) if (g->entries[k].hash != 0 && g->entries[k].ptr == e->ptr) return 0;
  }
  return cnt == g->nitems && (cnt < n || (allow_full && cnt == n));
}
static int wf_gc(struct GC* g, size_t n, int marks_clear) { return wf_gc_x(g, n, marks_clear, 0); }
static int view(struct GC* g, size_t n, var p, bool* root, bool* marked) {
  for (size_t i = 0; i < n; i++) if (g->entries[i].hash != 0 && g->entries[i].ptr == p) { if (root) *root = g->entries[i].root; if (marked) *marked = g->entries[i].marked; return 1; }
  return 0;
}
#ifndef MARKS
#define MARKS 0        /* 1: marks may be set (state during a collection) */
#endif
static void arbitrary_gc(void) {
  gc = (struct GC*)header_init(&GO.h, GC, AllocHeap); cv_gc = gc;
  { struct GC any_state; *gc = any_state; }      /* every field the invariant below does not pin down is arbitrary (whatever history left there) */
  gc->entries = ENT_A; gc->nslots = NS; gc->running = true; gc->freelist = NULL; gc->freenum = 0; gc->bottom = NULL;
  gc->minptr = (uintptr_t)CELL(0); gc->maxptr = (uintptr_t)CELL(63); gc->mitems = nondet_ulong();
  size_t cnt = 0;
  for (size_t i = 0; i < NS; i++) {
    if (nondet_bool()) {
      unsigned k = nondet_unsigned(); __CPROVER_assume(k < 64);
      ENT_A[i].ptr = CELL(k); ENT_A[i].hash = nondet_ulong(); ENT_A[i].root = nondet_bool(); ENT_A[i].marked = MARKS ? nondet_bool() : false; cnt++;
    } else { ENT_A[i] = (struct GCEntry){0}; }
  }
  gc->nitems = cnt; old_n = (int)cnt;
  __CPROVER_assume(wf_gc(gc, NS, !MARKS));
  for (size_t i = 0; i < NS; i++) SNAP[i] = ENT_A[i];
  in_k = nondet_unsigned(); __CPROVER_assume(in_k < 64); in_p = CELL(in_k); in_root = nondet_bool();
  unsigned q = nondet_unsigned(); __CPROVER_assume(q < 64); gh_q = CELL(q);
  old_has_p = view(gc, NS, in_p, &old_root_p, &old_marked_p); old_has_q = view(gc, NS, gh_q, &old_root_q, &old_marked_q);
}
static int entries_unchanged(void) { for (size_t i = 0; i < NS; i++) if (ENT_A[i].ptr != SNAP[i].ptr || ENT_A[i].hash != SNAP[i].hash || ENT_A[i].root != SNAP[i].root || ENT_A[i].marked != SNAP[i].marked) return 0; return gc->entries == ENT_A && gc->nslots == NS; }

/* ---- C17 ---- */
void h_set_ptr(void) {
  arbitrary_gc(); __CPROVER_assume(!old_has_p);         /* a fresh allocation is not in the registry */
  gc->nitems++;                                          /* GC_Set counts first, then inserts */
  COVER(NS <= 2 || old_n >= 2, "insertion next to residents");
  GC_Set_Ptr(gc, in_p, in_root);
  bool r, m; int has = view(gc, NS, in_p, &r, &m);
  ASSERT(has && r == in_root && m == false, "[C17] set records the object once, with the root flag it was allocated with");
  has = view(gc, NS, gh_q, &r, &m);
  ASSERT(gh_q == in_p || (has == old_has_q && (!has || (r == old_root_q && m == old_marked_q))), "[C17] set leaves every other registration unchanged");
  ASSERT(wf_gc_x(gc, NS, 1, 1), "[C17] the registry invariant holds after an insertion (unique pointers, homes, probe order, count)");
}
void h_mem_ptr(void) {
  arbitrary_gc();
  ASSERT(GC_Mem_Ptr(gc, in_p) == (old_has_p != 0), "[C17] mem(gc, p) holds precisely for the registered objects");
  ASSERT(entries_unchanged(), "lookups change nothing");
  COVER(NS <= 1 || old_has_p, "lookup of a registered pointer"); COVER(NS <= 1 || (!old_has_p && old_n >= 1), "lookup of an unregistered pointer");
}
void h_rem_ptr(void) {
  arbitrary_gc();
  gc->freelist = FREELIST; gc->freenum = 2; FREELIST[0] = nondet_bool() ? in_p : CELL(1); FREELIST[1] = nondet_bool() ? in_p : NULL;
  int pending = (FREELIST[0] == in_p) + (FREELIST[1] == in_p);
  /* state of a sweep in progress: an object is pending (unlinked, waiting to be finalised) at most once, and then it is no longer registered */
  __CPROVER_assume(pending <= 1 && !(pending && old_has_p) && in_p != CELL(1));
  COVER(NS <= 2 || (old_has_p && old_n >= 2), "removal with other residents"); COVER(!old_has_p && !pending, "removal of an unregistered pointer"); COVER(pending, "del of an object pending in a sweep in progress");
  GC_Rem_Ptr(gc, in_p);
  bool r, m; int has = view(gc, NS, in_p, &r, &m);
  ASSERT(!has, "[C17] rem removes the object from the registry");
  has = view(gc, NS, gh_q, &r, &m);
  ASSERT(gh_q == in_p || (has == old_has_q && (!has || (r == old_root_q && m == old_marked_q))), "[C17] rem leaves every other registration unchanged");
  ASSERT(gc->nitems == (size_t)(old_n - old_has_p) && wf_gc(gc, NS, 1), "[C17] the registry invariant and the count hold after a removal (backward shift)");
  ASSERT(cv_destructs == (old_has_p || pending) && cv_deallocs == cv_destructs && (!cv_destructs || cv_last_destruct == in_p) && cv_order_bad == 0, "[C06] an explicitly deleted object is finalised exactly once and then released exactly once - also one that a sweep in progress has unlinked but not finalised yet; nothing else is");
  ASSERT(FREELIST[0] != in_p && FREELIST[1] != in_p, "[C06] a deleted object is struck from the pending list of a sweep in progress");
}
/* the registry shrunk to nothing by the very sweep that is still finalising its pending list (thread teardown): del of a pending object */
void h_rem_ptr_empty(void) {
  gc = (struct GC*)header_init(&GO.h, GC, AllocHeap); cv_gc = gc;
  { struct GC any_state; *gc = any_state; }
  gc->entries = NULL; gc->nslots = 0; gc->nitems = 0; gc->running = true;
  unsigned k = nondet_unsigned(); __CPROVER_assume(k >= 2 && k < 64); in_p = CELL(k);
  gc->freelist = FREELIST; gc->freenum = 2; FREELIST[0] = nondet_bool() ? in_p : CELL(1); FREELIST[1] = FREELIST[0] == in_p ? NULL : (nondet_bool() ? in_p : NULL);
  int pending = (FREELIST[0] == in_p) + (FREELIST[1] == in_p);
  GC_Rem_Ptr(gc, in_p);
  ASSERT(cv_destructs == pending && cv_deallocs == pending && (!pending || cv_last_destruct == in_p) && cv_order_bad == 0, "[C06] del of an object pending in a sweep finalises and releases it exactly once, also when that sweep has already shrunk the registry to nothing");
  ASSERT(FREELIST[0] != in_p && FREELIST[1] != in_p && gc->nitems == 0, "[C06] a deleted object is struck from the pending list of a sweep in progress");
  COVER(pending == 1, "pending object deleted"); COVER(pending == 0, "nothing pending");
}
/* ---- C01: marking ---- */
void h_mark_item(void) {
  arbitrary_gc();        /* MARKS=1 */
  var arg = nondet_bool() ? in_p : (var)((char*)in_p + 3);     /* also a misaligned word */
  COVER(NS <= 1 || (old_has_p && !old_marked_p && arg == in_p), "marking a registered unmarked object"); COVER(NS <= 1 || (old_has_p && old_marked_p), "already marked (cycle / shared)");
  GC_Mark_Item(gc, arg);
  bool r, m; int has = view(gc, NS, in_p, &r, &m);
  ASSERT(arg != in_p || !old_has_p || m, "[C01] a registered object passed to mark is marked afterwards");
  has = view(gc, NS, gh_q, &r, &m);
  ASSERT(has == old_has_q && (!has || (r == old_root_q && (m || !old_marked_q))), "[C01] marking never unregisters, never clears a mark, never changes a root flag");
  ASSERT(gh_q == in_p || !has || m == old_marked_q, "[C01] marking one object marks no other (frame)");
  ASSERT(cv_recurse_calls == (arg == in_p && old_has_p && !old_marked_p) && (!cv_recurse_calls || cv_recurse_arg == in_p), "[C01] the object's contents are scanned exactly when it was registered and not yet marked (terminates on cycles and shared objects)");
  ASSERT(gc->nitems == (size_t)old_n, "marking keeps the count");
}
/* GC_Recurse: leaf types nothing; a Mark instance is invoked with the recursive callback; otherwise every word is marked */
static var cv_type; static struct Mark cv_mark_inst; static int cv_mark_inst_calls; static void (*cv_mark_f)(var, void*);
static void cv_mark_fn(var self, var g, void (*f)(var, void*)) { cv_mark_inst_calls++; cv_mark_f = f; }
var type_of(var self) { return cv_type; }
var type_instance(var type, var cls) { CV_LIMIT(cls == Mark, "harness: type_instance(type, Mark)"); return (type == Array || type == Table) ? &cv_mark_inst : NULL; }
size_t size(var type) { return type == Ref ? sizeof(struct Ref) : type == Range ? sizeof(struct Range) : 0; }
static int cv_mi_calls, cv_mi_q; static void* cv_mi_args[8];
void cv_mark_item(void* g, void* ptr) { if (cv_mi_calls < 8) cv_mi_args[cv_mi_calls] = ptr; cv_mi_calls++; if (ptr == gh_q) cv_mi_q++; }
void h_recurse(void) {
  arbitrary_gc();
  cv_mark_inst.mark = cv_mark_fn;
  static struct { struct Header h; struct Range v; } OBJ4;     /* a plain struct of 4 words (Range) / 1 word (Ref) */
  var obj = &OBJ4.v; size_t gh_w = nondet_ulong(); __CPROVER_assume(gh_w < 4);
  var words[4] = { nondet_ptr(), nondet_ptr(), nondet_ptr(), nondet_ptr() };
  OBJ4.v.value = words[0]; OBJ4.v.start = (int64_t)words[1]; OBJ4.v.stop = (int64_t)words[2]; OBJ4.v.step = (int64_t)words[3];
  int in_t = nondet_int(); __CPROVER_assume(in_t >= 0 && in_t <= 5);
  var types[6] = { Int, String, Array, Table, Ref, Range }; cv_type = types[in_t];
  GC_Recurse(gc, obj);
  if (in_t <= 1) ASSERT(cv_mi_calls == 0 && cv_mark_inst_calls == 0, "[C01] leaf types hold no references: nothing is scanned");
  if (in_t == 2 || in_t == 3) ASSERT(cv_mark_inst_calls == 1 && cv_mark_f == (void(*)(var,void*))GC_Mark_And_Recurse && cv_mi_calls == 0, "[C01] a type with a Mark instance is traversed through it, with the recursive callback");
  if (in_t == 4) ASSERT(cv_mi_calls == 1 && cv_mi_args[0] == words[0], "[C01] every word of a plain struct is a candidate reference (Ref: one word)");
  if (in_t == 5) ASSERT(cv_mi_calls == 4 && cv_mi_args[gh_w] == words[gh_w], "[C01] every word of a plain struct is a candidate reference (four words)");
  COVER(in_t == 5, "plain struct scanned"); COVER(in_t == 3, "Mark instance used");
}
/* GC_Mark: roots are marked and scanned, thread-local storage is traversed with the recursive callback */
static int cv_tls_marks; static void (*cv_tls_f)(var, void*); static OBJ(Ref, THR);
var current(var type) { return &THR.v; }
void cv_tls_mark(var self, var g, void (*f)(var, void*)) { cv_tls_marks++; cv_tls_f = f; }
void cv_tls_rem(var self, var key) { }
void h_mark(void) {
  arbitrary_gc(); __CPROVER_assume(old_n >= 1);
  GC_Mark(gc);
  bool r, m; int has = view(gc, NS, gh_q, &r, &m);
  ASSERT(has == old_has_q && (!has || r == old_root_q), "[C01] marking never unregisters anything");
  ASSERT(!has || !r || m, "[C01] every root-registered object is marked");
  ASSERT(cv_recurse_q == (old_has_q && old_root_q), "[C01] every root-registered object is scanned, once");
  ASSERT(cv_tls_marks == 1 && cv_tls_f == (void(*)(var,void*))GC_Mark_And_Recurse, "[C01] thread-local storage is traversed with the recursive callback, so objects held only there are marked");
  COVER(NS <= 1 || (old_has_q && old_root_q), "a root present");
}
/* GC_Sweep: exactly the unmarked non-roots are finalised (once) and removed; marks are cleared; the invariant survives the in-place compaction */
void h_sweep(void) {
  arbitrary_gc();        /* MARKS=1 */
  COVER(NS <= 2 || (old_n >= 2 && old_has_q && !old_marked_q && !old_root_q), "an unreachable object among others");
  GC_Sweep(gc);
  int doomed = old_has_q && !old_marked_q && !old_root_q;
  bool r, m; int has = view(gc, NS, gh_q, &r, &m);
  ASSERT(has == (old_has_q && !doomed) && (!has || (r == old_root_q && !m)), "[C01][C17] a marked or root object stays registered with its root flag; an unmarked non-root is removed; all marks are cleared");
  ASSERT(cv_destructs_q == doomed && cv_deallocs_q == doomed, "[C01][C06] an object is finalised and released exactly once if it was unreachable, and not at all otherwise");
  ASSERT(cv_destructs == cv_deallocs && cv_order_bad == 0 && (size_t)cv_destructs == (size_t)old_n - gc->nitems, "[C06] every object removed by the sweep is finalised, then released");
  ASSERT(wf_gc(gc, NS, 1), "[C17] the registry invariant holds after a sweep (in-place deletion during the scan)");
  ASSERT(gc->freelist == NULL && gc->freenum == 0 && cv_freed_fl == 1, "[C06] the pending list is released");
  ASSERT(cv_resize_less_calls == 1 && gc->mitems == gc->nitems + gc->nitems / 2 + 1, "the next collection threshold is set from the survivors");
}
/* ownership link during a sweep: the destructor of one swept object (owner) deletes another managed object gh_q (owned) */
void h_sweep_owner(void) {
  arbitrary_gc();
  __CPROVER_assume(old_has_p && !old_marked_p && !old_root_p && old_has_q && gh_q != in_p && !old_root_q);
  __CPROVER_assume(old_n == 2);          /* owner and owned are the only registrations (keeps the re-entrant sweep tractable) */
  cv_reenter = 1; cv_reenter_target = in_p;
  COVER(!old_marked_q, "owner and owned both unreachable"); COVER(old_marked_q, "owned still reachable from elsewhere");
  GC_Sweep(gc);
  ASSERT(cv_destructs_q == 1 && cv_deallocs_q == 1, "[C06] an object owned by a swept owner is finalised exactly once and released exactly once, whichever of the two the sweep reaches first");
  ASSERT(!view(gc, NS, gh_q, NULL, NULL) && !view(gc, NS, in_p, NULL, NULL), "[C17] owner and owned are both gone from the registry");
}
/* the same with del cut by GC_Rem_Ptr's contract: owner in_p and owned gh_q are both swept by this sweep, in whichever order the slots give */
void h_sweep_owner_cut(void) {
  arbitrary_gc();        /* MARKS=1 */
  __CPROVER_assume(old_has_p && !old_marked_p && !old_root_p && old_has_q && gh_q != in_p && !old_root_q && !old_marked_q);
  cv_reenter = 2; cv_reenter_target = in_p; cv_gc = gc;
  GC_Sweep(gc);
  ASSERT(cv_destructs_q == 1 && cv_deallocs_q == 1, "[C06] an object deleted by its owner's destructor during the sweep that reclaims both is finalised exactly once and released exactly once, whichever of the two the sweep reaches first");
  ASSERT(cv_destructs == cv_deallocs && (size_t)cv_destructs == (size_t)old_n - gc->nitems, "[C06] every object removed by the sweep is finalised and released once");
  ASSERT(!view(gc, NS, gh_q, NULL, NULL) && !view(gc, NS, in_p, NULL, NULL) && wf_gc(gc, NS, 1), "[C17] owner and owned are both gone from the registry and the invariant holds");
  COVER(1, "sweep with an ownership link returns");
}
/* GC_Set / GC_Rem: composition, thresholds, stopped collector */
void h_gc_set(void) {
  arbitrary_gc(); __CPROVER_assume(!old_has_p && NS > 0);
  OBJ(Int, R); struct Int* rv = MK(R, Int, AllocStack); rv->val = in_root;
  size_t mit = gc->mitems;
  GC_Set(gc, in_p, rv);
  bool r, m; int has = view(gc, NS, in_p, &r, &m);
  ASSERT(has && r == in_root && gc->nitems == (size_t)old_n + 1, "[C17] a new managed object is recorded once with its root flag and counted once");
  ASSERT((uintptr_t)in_p >= gc->minptr && (uintptr_t)in_p <= gc->maxptr, "[C17] the address window covers every registered object");
  ASSERT(cv_resize_more_calls == 1, "growth is checked before the insertion");
  ASSERT(cv_mark_calls == ((size_t)old_n + 1 > mit) && cv_sweep_calls == cv_mark_calls && cv_seq_bad == 0, "[C01] a collection (mark, then sweep) runs exactly when the count passes the threshold");
  COVER((size_t)old_n + 1 > mit, "threshold collection");
}
void h_gc_rem(void) {
  arbitrary_gc();
  gc->running = nondet_bool(); bool was_running = gc->running;
  COVER(!was_running && old_has_p, "del while the collector is stopped"); COVER(was_running && old_has_p, "del while running");
  GC_Rem(gc, in_p);
  ASSERT(!was_running || (gc->nitems == (size_t)(old_n - old_has_p) && wf_gc(gc, NS, 1)), "[C17] the recorded count matches the registry after rem, also when the pointer was not registered");
  ASSERT(!old_has_p || (cv_destructs == 1 && cv_deallocs == 1 && !view(gc, NS, in_p, NULL, NULL)), "[C06] del of a managed object finalises and releases it exactly once, whether the collector is running or stopped");
  ASSERT(was_running || old_has_p || (cv_destructs == 1 && cv_deallocs == 1 && cv_last_destruct == in_p && entries_unchanged()), "[C06] an object the stopped collector never registered is finalised and released directly by del, the registry untouched");
  ASSERT(!was_running || (cv_resize_less_calls == 1 && cv_resize_less_items == gc->nitems && gc->mitems == gc->nitems + gc->nitems / 2 + 1), "[C17] shrinking is checked after the removal has been counted");
}
void h_gc_del(void) {
  arbitrary_gc();
  int doomed = old_has_q && !old_root_q;
  gc->freelist = NULL;
  GC_Del(gc);
  ASSERT(cv_destructs_q == doomed && cv_deallocs_q == doomed, "[C06] at teardown every managed non-root object is finalised and released exactly once");
  ASSERT(cv_freed_a == 1, "[C06] teardown releases the slot array exactly once");
  COVER(NS <= 1 || doomed, "teardown with a live managed object");
}
/* rehash: every registration is re-inserted once with its root flag */
#ifndef NEWSIZE
#define NEWSIZE 5
#endif
static int cv_sets, cv_sets_q, cv_bad_set;
void cv_set_ptr_rec(struct GC* g, var ptr, bool root) {
  cv_sets++; if (!(g->entries == ENT_B && g->nslots == NEWSIZE)) cv_bad_set++;
  if (ptr == gh_q) { cv_sets_q++; if (root != old_root_q) cv_bad_set++; }
}
void h_rehash(void) {
  arbitrary_gc(); __CPROVER_assume(NS > 0);
  GC_Rehash(gc, NEWSIZE);
  ASSERT(gc->nslots == NEWSIZE && gc->entries == ENT_B && gc->nitems == (size_t)old_n, "rehash installs a zeroed slot array of the requested capacity and keeps the count");
  ASSERT(cv_sets == old_n && cv_sets_q == old_has_q && cv_bad_set == 0, "[C17] rehash re-inserts every registration exactly once, with its root flag");
  ASSERT(cv_freed_a == 1 && !cv_freed_b, "[C06] rehash releases the old slot array exactly once");
  COVER(NS <= 2 || old_n >= 2, "rehash with several entries");
}
static size_t cv_rehash_to; static int cv_rehash_calls;
void cv_rehash_stub(struct GC* g, size_t n) { cv_rehash_calls++; cv_rehash_to = n; }
void h_policy(void) {
  for (size_t n = 0; n <= 120; n++) {
    size_t r = GC_Ideal_Size(n); int listed = 0; for (int i = 0; i < GC_PRIMES_COUNT; i++) listed |= (GC_Primes[i] == r);
    ASSERT(r > n && listed, "[C17] the ideal capacity leaves a free slot and is a listed prime");
  }
  static struct GC G2; size_t in_items = nondet_ulong(), in_slots = nondet_ulong(); __CPROVER_assume(in_items <= 120 && in_slots <= 211);
  G2.nitems = in_items; G2.nslots = in_slots;
  GC_Resize_More(&G2);
  ASSERT(cv_rehash_calls == (GC_Ideal_Size(in_items) > in_slots) && (!cv_rehash_calls || cv_rehash_to == GC_Ideal_Size(in_items)), "[C17] growth rehashes to the ideal capacity exactly when it exceeds the current one");
  cv_rehash_calls = 0; GC_Resize_Less(&G2);
  ASSERT(cv_rehash_calls == (GC_Ideal_Size(in_items) < in_slots) && (!cv_rehash_calls || cv_rehash_to == GC_Ideal_Size(in_items)), "[C17] shrinking rehashes to the ideal capacity exactly when it is below the current one");
  COVER(1, "policy checked");
}
/* GC_Probe (loop-free, every capacity up to 2^40): the probe distance of slot i for stored home h */
void h_probe(void) {
  static struct GC G2; uint64_t in_i = nondet_ulong(), in_h = nondet_ulong(); size_t in_n = nondet_ulong();
  __CPROVER_assume(in_n >= 1 && in_n <= (1UL << 40) && in_i < in_n && in_h >= 1 && in_h - 1 < in_n);
  G2.nslots = in_n;
  uint64_t d = GC_Probe(&G2, in_i, in_h);
  ASSERT(d < in_n && (in_h - 1 + d) % in_n == in_i, "[C17] the probe distance is (i - home) mod nslots, for every capacity");
  COVER(in_i < in_h - 1, "probe distance across the wrap-around");
}
/* the same ownership question over *concrete* registry layouts (capacity 3, owner and owned the only registrations, cells,
 * insertion order and the owned object's mark enumerated by the driver): cbmc then acts as a checking interpreter of the
 * real GC_Sweep / GC_Rem text, which is what makes the re-entrant case tractable */
#ifndef KO
#define KO 0
#define KQ 1
#define ORDER 0
#define MQ 0
#endif
void h_sweep_owner_concrete(void) {
  gc = (struct GC*)header_init(&GO.h, GC, AllocHeap); cv_gc = gc;
  gc->entries = ENT_A; gc->nslots = 3; gc->running = true; gc->freelist = NULL; gc->freenum = 0; gc->nitems = 0;
  gc->minptr = (uintptr_t)CELL(0); gc->maxptr = (uintptr_t)CELL(63); gc->mitems = 100;
  for (int i = 0; i < 3; i++) ENT_A[i] = (struct GCEntry){0};
  in_p = CELL(KO); gh_q = CELL(KQ);
  if (ORDER == 0) { gc->nitems++; GC_Set_Ptr(gc, in_p, false); gc->nitems++; GC_Set_Ptr(gc, gh_q, false); }
  else { gc->nitems++; GC_Set_Ptr(gc, gh_q, false); gc->nitems++; GC_Set_Ptr(gc, in_p, false); }
  for (int i = 0; i < 3; i++) if (ENT_A[i].hash != 0 && ENT_A[i].ptr == gh_q) ENT_A[i].marked = MQ;
  CV_LIMIT(wf_gc(gc, 3, 0), "harness: pre-state built by the real GC_Set_Ptr is well formed");
  cv_reenter = 1; cv_reenter_target = in_p;
  GC_Sweep(gc);
  ASSERT(cv_destructs_q == 1 && cv_deallocs_q == 1, "[C06] an object owned by a swept owner is finalised exactly once and released exactly once, whichever of the two the sweep reaches first");
  ASSERT(!view(gc, 3, gh_q, NULL, NULL) && !view(gc, 3, in_p, NULL, NULL), "[C17] owner and owned are both gone from the registry");
  COVER(1, "re-entrant sweep done");
}
