/* C19 / C06, K2: header_init, alloc_by (alloc/alloc_raw/alloc_root), dealloc, del_by (del/del_raw/del_root),
 * alloc_stack / $ through the real Type.c lookup for a concrete built-in type (TYPE_UNDER_TEST, struct TSTRUCT).
 * calloc/free are recording stubs; the collector entry points set/rem(current(GC), ..) are recording stubs. */
#include "src/Alloc.c"
#include "contracts/common.h"

#ifndef TYPE_UNDER_TEST
#define TYPE_UNDER_TEST Int
#define TSTRUCT Int
#endif

/* ---- allocator model (assumed contract): calloc returns NULL or a fresh zeroed block; free takes a live block start ---- */
static struct cv_blk { char b[sizeof(struct Header) + 64]; } cv_blk __attribute__((aligned(8)));
#define cv_block (cv_blk.b)
static int cv_callocs, cv_frees, cv_block_live; static size_t cv_calloc_size; static void* cv_freed;
void* calloc(size_t n, size_t s) {
  cv_callocs++; cv_calloc_size = n * s;
#if CELLO_MEMORY_CHECK == 1
  if (nondet_bool()) return NULL;        /* allocation failure is in contract only in the checked build (OutOfMemoryError) */
#endif
  __CPROVER_assert(n * s <= sizeof(cv_block), "harness block large enough");
  cv_blk = (struct cv_blk){{0}};
  cv_block_live = 1; return cv_block;
}
void free(void* p) {
  if (p == NULL) return;          /* free(NULL) is a no-op */
  cv_frees++; cv_freed = p;
  __CPROVER_assert(p == (void*)cv_block && cv_block_live, "[C19] free is called only on the start of a live heap block");
  cv_block_live = 0;
}
/* ---- collector entry points (contracts discharged under C17/C06) ---- */
static OBJ(Ref, GCOBJ); static int cv_sets, cv_rems; static var cv_set_key, cv_rem_key; static int64_t cv_set_root;
#ifndef CELLO_NGC
var current(var type) { __CPROVER_assert(type == GC, "current(GC)"); return &GCOBJ.v; }
#else
var current(var type) { return &GCOBJ.v; }
#endif
void set(var self, var key, var val) { __CPROVER_assert(self == (var)&GCOBJ.v, "registration goes to the thread's collector"); cv_sets++; cv_set_key = key; cv_set_root = ((struct Int*)val)->val; }
void rem(var self, var key) { __CPROVER_assert(self == (var)&GCOBJ.v, "deletion goes to the thread's collector"); cv_rems++; cv_rem_key = key; }

static int expect_throw; static var expect_exc, expect_exc2; static struct Header old_hdr; static struct Header* watch;
void cv_on_throw(var obj) {
  ASSERT(expect_throw || obj == OutOfMemoryError, "no exception on an in-contract allocation call");
  ASSERT(!expect_throw || obj == expect_exc || (expect_exc2 && obj == expect_exc2), "[C12] the documented exception kind is raised");
  ASSERT(obj != OutOfMemoryError || cv_callocs >= 1, "OutOfMemoryError only after an allocation attempt");
  if (watch) {
    ASSERT(cv_frees == 0, "[C19] a refused deallocation frees nothing");
#if CELLO_ALLOC_CHECK == 1 && CELLO_MAGIC_CHECK == 1
    ASSERT(watch->type == old_hdr.type && watch->alloc == old_hdr.alloc && watch->magic == old_hdr.magic, "[C12] a refused deallocation leaves the object intact");
#endif
  }
}

void h_alloc(void) {
  int in_method = nondet_int(); __CPROVER_assume(in_method >= 0 && in_method <= 2);
  var p = in_method == 0 ? alloc(TYPE_UNDER_TEST) : in_method == 1 ? alloc_raw(TYPE_UNDER_TEST) : alloc_root(TYPE_UNDER_TEST);
  ASSERT(cv_callocs == 1 && cv_calloc_size == sizeof(struct Header) + sizeof(struct TSTRUCT), "[C19] alloc obtains header + size(type) bytes");
  ASSERT(p == (var)(cv_block + sizeof(struct Header)), "alloc returns the address just after the header");
  ASSERT(HDR(p)->type == TYPE_UNDER_TEST && ALLOC_IS(p, AllocHeap) && MAGIC_OK(p), "[C19] a heap object carries (type, Heap, magic)");
  size_t gh_i = nondet_ulong(); __CPROVER_assume(gh_i < sizeof(struct TSTRUCT));
  ASSERT(((char*)p)[gh_i] == 0, "the object body is zero-filled");
  ASSERT(type_of(p) == TYPE_UNDER_TEST, "[C19] type_of gives the constructing type");
#ifndef CELLO_NGC
  ASSERT(cv_sets == (in_method == 1 ? 0 : 1) && (in_method == 1 || (cv_set_key == p && cv_set_root == (in_method == 2))), "alloc registers managed and root objects with the collector (root flag as requested), raw objects not");
#else
  ASSERT(cv_sets == 0, "without a collector nothing is registered");
#endif
  COVER(in_method == 0, "alloc"); COVER(in_method == 1, "alloc_raw"); COVER(in_method == 2, "alloc_root");
}

void h_dealloc_heap(void) {
  struct Header* h = (struct Header*)cv_block; cv_block_live = 1;
  var p = header_init(h, TYPE_UNDER_TEST, AllocHeap);
  dealloc(p);
  ASSERT(cv_frees == 1 && cv_freed == (void*)h, "[C19] a heap object is released exactly once, at its header");
  COVER(1, "dealloc heap");
}
void h_dealloc_nonheap(void) {
  OBJ(TSTRUCT, O); int in_alloc = nondet_int(); __CPROVER_assume(in_alloc == AllocStatic || in_alloc == AllocStack || in_alloc == AllocData);
  var p = header_init(&O.h, TYPE_UNDER_TEST, in_alloc);
  watch = &O.h; old_hdr = O.h; expect_throw = 1; expect_exc = ResourceError;
  COVER(in_alloc == AllocStack, "dealloc of a stack object"); COVER(in_alloc == AllocData, "dealloc of a container-embedded object"); COVER(in_alloc == AllocStatic, "dealloc of a static object");
  dealloc(p);
  ASSERT(0, "[C19] dealloc of a non-heap object does not return normally");
}
void h_del(void) {
  struct Header* h = (struct Header*)cv_block; cv_block_live = 1;
  var p = header_init(h, TYPE_UNDER_TEST, AllocHeap);
  int in_method = nondet_int(); __CPROVER_assume(in_method >= 0 && in_method <= 2);
  if (in_method == 0) del(p); else if (in_method == 1) del_raw(p); else del_root(p);
#ifndef CELLO_NGC
  if (in_method == 1) { ASSERT(cv_frees == 1 && cv_freed == (void*)h && cv_rems == 0, "del_raw finalises and releases the object itself, exactly once"); }
  else { ASSERT(cv_rems == 1 && cv_rem_key == p && cv_frees == 0, "del/del_root hand the object to the collector's rem exactly once (which finalises and releases it, C06)"); }
#else
  ASSERT(cv_frees == 1 && cv_freed == (void*)h && cv_rems == 0, "without a collector every del finalises and releases the object itself, exactly once");
#endif
  COVER(in_method == 0, "del"); COVER(in_method == 1, "del_raw");
}
void h_stack(void) {
  struct TSTRUCT* p = alloc_stack(TSTRUCT);
  ASSERT(HDR(p)->type == TYPE_UNDER_TEST && ALLOC_IS(p, AllocStack) && MAGIC_OK(p), "[C19] $ / alloc_stack objects carry (type, Stack, magic)");
  ASSERT(type_of(p) == TYPE_UNDER_TEST, "[C19] type_of of a stack object");
  watch = HDR(p); old_hdr = *HDR(p); expect_throw = 1; expect_exc = ResourceError; expect_exc2 = ValueError;  /* a destructor may refuse first (String_Del) */
  COVER(1, "stack object built");
  del_raw(p);
  ASSERT(0, "[C19] del_raw of a stack object does not return normally");
}
void h_static(void) {
  ASSERT(ALLOC_IS(TYPE_UNDER_TEST, AllocStatic) && MAGIC_OK(TYPE_UNDER_TEST), "[C19] static type objects carry (Static, magic)");
  ASSERT(type_of(TYPE_UNDER_TEST) == Type, "[C19] the type of a static type object is Type");
  ASSERT(type_of(TYPE_UNDER_TEST) == Type, "[C19] ... also on the second lookup");
  watch = HDR(TYPE_UNDER_TEST); old_hdr = *watch; old_hdr.type = Type; expect_throw = 1; expect_exc = ResourceError;
  COVER(1, "static object");
  dealloc(TYPE_UNDER_TEST);
  ASSERT(0, "[C19] dealloc of a static object does not return normally");
}
void h_null(void) {
  expect_throw = 1; expect_exc = ValueError;   /* type_of(NULL) raises ValueError before dealloc's own NULL test */
  COVER(1, "dealloc NULL");
  dealloc(NULL);
  ASSERT(0, "[C12] dealloc(NULL) does not return normally");
}
