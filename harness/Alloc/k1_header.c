/* K1: header_init writes exactly the header (type, allocation class, magic) and returns the address after it */
#include "src/Alloc.c"
#include "contracts/common.h"
var header_init(var head, var type, int alloc)
__CPROVER_requires(__CPROVER_is_fresh(head, sizeof(struct Header)))
__CPROVER_ensures(__CPROVER_return_value == (char*)head + sizeof(struct Header))
#if CELLO_ALLOC_CHECK == 1 && CELLO_MAGIC_CHECK == 1
__CPROVER_ensures(((struct Header*)head)->type == type && ((struct Header*)head)->alloc == (var)(intptr_t)alloc && ((struct Header*)head)->magic == (var)CELLO_MAGIC_NUM)
#else
__CPROVER_ensures(((struct Header*)head)->type == type)
#endif
__CPROVER_assigns(__CPROVER_object_whole(head))
;
struct Header* header(var self)
__CPROVER_ensures(__CPROVER_return_value == (struct Header*)((char*)self - sizeof(struct Header)))
__CPROVER_assigns()
;
void h_header_init(void) { var r = header_init(nondet_ptr(), nondet_ptr(), nondet_int()); COVER(r != NULL, "header_init returns"); }
void h_header(void) { char buf[64]; struct Header* r = header(buf + 32); COVER(r != NULL, "header returns"); }
