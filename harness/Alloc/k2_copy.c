/* C10/C19, K2: copy(x) without a Copy instance = assign(alloc(type_of(x)), x): a new managed object of the same type holding
 * an equal value; construct_with / new_with wiring. alloc and assign are cut by their contracts. */
#include "src/Alloc.c"
#include "contracts/common.h"
static OBJ(Int, FRESH); static int cv_allocs; static var cv_alloc_type;
var type_of(var self) { return HDR(self)->type; }
var instance(var self, var cls) { return NULL; }
var type_instance(var type, var cls) { return NULL; }
size_t size(var type) { return sizeof(struct Int); }
void* calloc(size_t n, size_t s) { cv_allocs++; FRESH.v.val = 0; return &FRESH; }
var current(var type) { return NULL; }
static int cv_sets; void set(var self, var key, var val) { cv_sets++; }
void rem(var self, var key) {}
static int cv_assigns; var assign(var self, var obj) { cv_assigns++; ((struct Int*)self)->val = ((struct Int*)obj)->val; return self; }
size_t len(var self) { return 1; } static var cv_arg0; var get(var self, var key) { return cv_arg0; }
void cv_on_throw(var obj) { ASSERT(0, "no exception from copy / new of a plain value"); }
void h_copy(void) {
  OBJ(Int, X); struct Int* x = MK(X, Int, AllocStack); int64_t in_v = nondet_long(); x->val = in_v;
  struct Int* y = copy(x);
  ASSERT((var)y != (var)x && (var)y == (var)&FRESH.v && cv_allocs == 1, "[C10] copy yields a new object");
  ASSERT(HDR(y)->type == Int && ALLOC_IS(y, AllocHeap), "[C10][C19] a copy carries the type of the original and is a heap object");
  ASSERT(y->val == in_v && x->val == in_v && cv_assigns == 1, "[C10] copy yields a value equal to the original and leaves the original alone");
#ifndef CELLO_NGC
  ASSERT(cv_sets == 1, "a copy is a managed object");
#endif
  cv_arg0 = x;
  struct Int* z = new_with(Int, NULL);
  ASSERT(z->val == in_v && cv_assigns == 2, "[C10] new(T, x) of a type without a constructor assigns its single argument");
  COVER(in_v != 0, "non-zero value copied");
}
