/* C07, K2: contracts of the five exception-record functions on an arbitrary (havoced) record, and the two
 * construct lemmas over the real try/catch macro text. setjmp/longjmp/exit/abort are cut by recording
 * noreturn stubs (C semantics of setjmp/longjmp assumed, DESIGN.md section 7). The filter tuple, len, the
 * foreach iteration and eq go through the real Tuple.c / Type.c / Len.c / Cmp.c code. */
#include "src/Exception.c"
#include "src/Tuple.c"
#include "contracts/common.h"

/* ---- dispatch cut (contract discharged by the C08 all-pairs obligations): for a Tuple object, len() is Tuple's
 * Len instance and instance(t, Iter) is Tuple's Iter instance; the real Tuple functions are what runs ---- */
static struct Iter cv_tuple_iter = { Tuple_Iter_Init, Tuple_Iter_Next, Tuple_Iter_Last, Tuple_Iter_Prev, NULL };
size_t len(var self) { CV_LIMIT(HDR(self)->type == Tuple, "harness: len of the filter Tuple"); return Tuple_Len(self); }
var instance(var self, var cls) { CV_LIMIT(HDR(self)->type == Tuple && cls == Iter, "harness: instance(filter, Iter)"); return &cv_tuple_iter; }
/* indexed access to the filter (a scanner that uses len/get instead of foreach): Tuple's own Get instance, c_int of an Int object */
var get(var self, var key) { CV_LIMIT(HDR(self)->type == Tuple, "harness: get on the filter Tuple"); return Tuple_Get(self, key); }
int64_t c_int(var x) { CV_LIMIT(HDR(x)->type == Int, "harness: c_int of an Int"); return ((struct Int*)x)->val; }
bool eq(var a, var b) { return a == b; }   /* on exception kind objects: identity (discharged by h_eq_kinds + C09.Type_Cmp.k1) */

/* ---- the per-thread record: current(Exception) returns it (the Thread.c TLS lookup is cut here) ---- */
static struct { struct Header h; struct Exception v; } REC;
static OBJ(String, MSG);
var current(var type) { __CPROVER_assert(type == Exception, "current(Exception) is what the record functions ask for"); return &REC.v; }

/* ---- noreturn cuts and sinks ---- */
static int cv_jumps, cv_jump_val; static void* cv_jump_env;
static int cv_exits, cv_exit_status, cv_aborts;
static int cv_msg_prints, cv_diag_prints;
static const char* cv_msg_fmt; static var cv_msg_args;
static void cv_on_jump(void); static void cv_on_exit(void);
void longjmp(struct __jmp_buf_tag env[1], int val) { cv_jumps++; cv_jump_env = env; cv_jump_val = val; cv_on_jump(); __CPROVER_assume(0); }
void exit(int status) { cv_exits++; cv_exit_status = status; cv_on_exit(); __CPROVER_assume(0); }
void abort(void) { cv_aborts++; cv_on_exit(); __CPROVER_assume(0); }
static int cv_setjmp_ret;
int _setjmp(struct __jmp_buf_tag env[1]) { return cv_setjmp_ret; }
int print_to_with(var out, int pos, const char* fmt, var args) {
  if (out == REC.v.msg) { cv_msg_prints++; cv_msg_fmt = fmt; cv_msg_args = args; }
  else if (((struct File*)out)->file == stderr) { cv_diag_prints++; }
  return nondet_int();
}
int fprintf(FILE* f, const char* fmt, ...) { if (f == stderr) cv_diag_prints++; return 0; }
void cv_on_throw(var obj) {}

/* ---- arbitrary record + snapshot ---- */
static struct { var obj; var msg; size_t depth; bool active; jmp_buf* top; jmp_buf* k; } OLD;
static size_t gh_k;   /* fixed-but-arbitrary buffer index: frame condition on the buffer stack */
static void arbitrary_record(void) {
  __CPROVER_havoc_object(&REC);
  header_init(&REC.h, Exception, AllocHeap);
  REC.v.obj = nondet_ptr(); REC.v.msg = MK(MSG, String, AllocHeap);
  size_t in_depth = nondet_ulong(); bool in_active = nondet_bool();
  REC.v.depth = in_depth; REC.v.active = in_active;
  __CPROVER_assume(REC.v.depth <= EXCEPTION_MAX_DEPTH);
  gh_k = nondet_ulong(); __CPROVER_assume(gh_k < EXCEPTION_MAX_DEPTH);
  OLD.obj = REC.v.obj; OLD.msg = REC.v.msg; OLD.depth = REC.v.depth; OLD.active = REC.v.active;
  OLD.k = REC.v.buffers[gh_k];
  OLD.top = REC.v.depth >= 1 ? REC.v.buffers[REC.v.depth - 1] : NULL;
}
#define SAME_BUFFERS (REC.v.buffers[gh_k] == OLD.k)
#define SAME_BUT_ACTIVE (REC.v.obj == OLD.obj && REC.v.msg == OLD.msg && REC.v.depth == OLD.depth && SAME_BUFFERS)
#define UNCHANGED (SAME_BUT_ACTIVE && REC.v.active == OLD.active)

enum { M_NONE, M_TRY_OVERFLOW, M_END_UNDERFLOW, M_THROW, M_CATCH, M_CONSTRUCT };
static int mode; static var in_obj; static int expect_match;

static void cv_on_jump(void) {
  if (mode == M_CONSTRUCT) {   /* lemma T, non-matching exception: this is the throw summary one level up */
    ASSERT(!expect_match, "construct: a matching exception is not propagated");
    ASSERT(OLD.depth >= 1 && cv_jump_env == (void*)*OLD.top, "construct: a non-matching exception continues to the enclosing block's buffer");
    ASSERT(REC.v.depth == OLD.depth && REC.v.obj == in_obj, "construct: propagated with the depth of the enclosing block and the same object");
    return;
  }
  ASSERT(mode == M_THROW || mode == M_CATCH, "longjmp only from throw or from a non-matching catch");
  ASSERT(OLD.depth >= 1, "a jump needs an enclosing try block (depth >= 1)");
  ASSERT(cv_jump_env == (void*)*OLD.top, "the jump target is the innermost open try block's buffer");
  ASSERT(cv_jump_val != 0, "setjmp returns non-zero on the second return");
  if (mode == M_THROW) {
    ASSERT(REC.v.obj == in_obj, "throw: the pending object is the one thrown");
    ASSERT(cv_msg_prints == 1 && cv_msg_fmt != NULL, "throw: the message is formatted into the record's message string");
    ASSERT(REC.v.depth == OLD.depth && SAME_BUFFERS, "throw: nesting depth and buffers unchanged");
  } else {
    ASSERT(OLD.active, "catch propagates only a pending exception");
    ASSERT(!expect_match, "catch: a matching filter does not propagate");
    ASSERT(UNCHANGED, "catch: propagation leaves the record (object, depth, pending flag) unchanged");
  }
}
static void cv_on_exit(void) {
  if (mode == M_CONSTRUCT) {
    ASSERT(!expect_match && OLD.depth == 0 && cv_exit_status == EXIT_FAILURE && cv_diag_prints >= 1 && cv_aborts == 0,
           "construct: an exception nobody handles terminates the program with a failure status and a diagnostic");
    return;
  }
  if (mode == M_TRY_OVERFLOW) { ASSERT(OLD.depth == EXCEPTION_MAX_DEPTH && cv_aborts == 1 && cv_diag_prints >= 1, "try beyond the maximum depth aborts with a diagnostic"); return; }
  if (mode == M_END_UNDERFLOW) { ASSERT(OLD.depth == 0 && cv_aborts == 1 && cv_diag_prints >= 1, "try_end at depth 0 aborts with a diagnostic"); return; }
  ASSERT(mode == M_THROW || mode == M_CATCH, "exit only from an uncaught throw / unmatched catch");
  ASSERT(OLD.depth == 0, "the program is terminated only when no try block is open");
  ASSERT(cv_exits == 1 && cv_exit_status == EXIT_FAILURE && cv_aborts == 0, "uncaught exception terminates with a failure status");
  ASSERT(cv_diag_prints >= 1, "uncaught exception writes a diagnostic to stderr");
  if (mode == M_THROW) { ASSERT(REC.v.obj == in_obj, "uncaught: the reported object is the one thrown"); }
  if (mode == M_CATCH) { ASSERT(OLD.active && !expect_match, "catch: only an unmatched pending exception is uncaught"); }
}

void h_try(void) {
  arbitrary_record();
  jmp_buf env;
  mode = M_TRY_OVERFLOW;
  exception_try(&env);
  ASSERT(OLD.depth < EXCEPTION_MAX_DEPTH, "try returns only below the maximum depth");
  ASSERT(REC.v.depth == OLD.depth + 1, "try: depth' = depth + 1");
  ASSERT(REC.v.active == false, "try: no exception pending on entry to the body");
  ASSERT(REC.v.buffers[OLD.depth] == &env, "try: the new top buffer is this block's");
  ASSERT(gh_k == OLD.depth || SAME_BUFFERS, "try: other buffers unchanged");
  ASSERT(REC.v.obj == OLD.obj && REC.v.msg == OLD.msg, "try: object and message unchanged");
  COVER(OLD.depth == 0, "try at depth 0"); COVER(OLD.depth == EXCEPTION_MAX_DEPTH - 1, "try at the last free depth"); COVER(OLD.active, "try with stale pending flag");
}
void h_try_overflow(void) {
  arbitrary_record(); __CPROVER_assume(REC.v.depth == EXCEPTION_MAX_DEPTH);
  jmp_buf env; mode = M_TRY_OVERFLOW;
  COVER(1, "try at maximum depth");
  exception_try(&env);
  ASSERT(0, "try at the maximum depth does not return");
}
void h_try_end(void) {
  arbitrary_record();
  mode = M_END_UNDERFLOW;
  exception_try_end();
  ASSERT(OLD.depth >= 1 && REC.v.depth == OLD.depth - 1, "try_end: depth' = depth - 1");
  ASSERT(REC.v.obj == OLD.obj && REC.v.msg == OLD.msg && REC.v.active == OLD.active && SAME_BUFFERS, "try_end: nothing else changes");
  COVER(OLD.depth == 1, "try_end at depth 1"); COVER(OLD.active, "try_end with pending exception");
}
void h_try_fail(void) {
  arbitrary_record();
  exception_try_fail();
  ASSERT(REC.v.active == true, "try_fail: exception pending");
  ASSERT(SAME_BUT_ACTIVE, "try_fail: nothing else changes");
  ASSERT(cv_jumps == 0 && cv_exits == 0, "try_fail returns");
  COVER(!OLD.active, "try_fail sets the flag");
}
void h_throw(void) {
  arbitrary_record();
  in_obj = nondet_ptr(); mode = M_THROW;
  COVER(OLD.depth == 0, "throw outside any try"); COVER(OLD.depth >= 2, "throw in nested try");
  exception_throw(in_obj, "message %s", NULL);
  ASSERT(0, "throw never returns");
}

/* catch: filters of 0..3 entries over the real exception type objects */
#ifndef NFILTER
#define NFILTER 2
#endif
void h_catch(void) {
  arbitrary_record();
  var kinds[5] = { TypeError, ValueError, KeyError, IOError, IndexOutOfBoundsError };
  unsigned in_o = nondet_unsigned();
  __CPROVER_assume(in_o < 5);
  REC.v.obj = kinds[in_o]; OLD.obj = REC.v.obj;
  /* filter entries are concrete objects (the record functions see them only through len, iteration and eq);
   * the pending object is symbolic, so a match at every position and no match are all covered */
#if NFILTER == 0
  var filter = tuple(); expect_match = 1;
#elif NFILTER == 1
  var filter = tuple(ValueError); expect_match = (in_o == 1);
#elif NFILTER == 2
  var filter = tuple(TypeError, KeyError); expect_match = (in_o == 0 || in_o == 2);
#else
  var filter = tuple(IOError, ValueError, TypeError); expect_match = (in_o == 3 || in_o == 1 || in_o == 0);
#endif
  mode = M_CATCH;
#if NFILTER > 0
  COVER(OLD.active && !expect_match && OLD.depth == 0, "catch: unmatched at depth 0");
  COVER(OLD.active && !expect_match && OLD.depth >= 1, "catch: unmatched inside an enclosing try");
#endif
  var r = exception_catch(filter);
  ASSERT(OLD.active || r == NULL, "catch: no handler when nothing is pending");
  ASSERT(!OLD.active || (expect_match && r == OLD.obj), "catch: a pending exception that matches binds the thrown object");
  ASSERT(!(OLD.active && r != NULL) || REC.v.active == false, "catch: a handled exception is consumed (never fires again in an enclosing block)");
  ASSERT(OLD.active || UNCHANGED, "catch: nothing pending leaves the record unchanged");
  ASSERT(SAME_BUT_ACTIVE, "catch: depth, object, buffers unchanged");
  COVER(r != NULL, "catch: handler runs"); COVER(r == NULL, "catch: nothing pending");
}

/* ---- construct lemmas over the real macro text -------------------------------------------------- */
static int handler_ran; static var bound;
static void body_summary(void) {
  /* induction hypothesis for a completed body: leaves depth as found, nothing pending */
  REC.v.active = false; REC.v.obj = nondet_ptr();
}
void h_construct_normal(void) {           /* lemma N: the body completes */
  arbitrary_record(); __CPROVER_assume(REC.v.depth < EXCEPTION_MAX_DEPTH);
  cv_setjmp_ret = 0; mode = M_NONE;
  try { body_summary(); } catch (e in TypeError, KeyError) { handler_ran = 1; bound = e; }
  ASSERT(!handler_ran, "body completed: the handler does not run");
  ASSERT(REC.v.depth == OLD.depth, "after try/catch the nesting depth is what it was before");
  ASSERT(REC.v.active == false, "after try/catch nothing is pending");
  ASSERT(cv_jumps == 0 && cv_exits == 0, "body completed: no jump, no exit");
  COVER(OLD.depth > 0, "construct nested");
}
void h_construct_throw(void) {            /* lemma T: entered at the second return of setjmp */
  arbitrary_record(); __CPROVER_assume(REC.v.depth < EXCEPTION_MAX_DEPTH);
  var kinds[4] = { TypeError, ValueError, KeyError, IOError };
  unsigned in_o = nondet_unsigned(); __CPROVER_assume(in_o < 4);
  cv_setjmp_ret = 1; mode = M_CONSTRUCT;
  in_obj = kinds[in_o]; REC.v.obj = in_obj;
  /* throw summary: between exception_try and the second return of setjmp the body ran and threw X at this level:
   * depth is entry+1 (restored by inner constructs), obj = X; the pending flag is whatever the body left */
  expect_match = (in_o == 0 || in_o == 2);
  COVER(!expect_match && OLD.depth == 0, "construct: unhandled at top level");
  COVER(!expect_match && OLD.depth >= 1, "construct: propagates to the enclosing block");
  try { ASSERT(0, "second return of setjmp does not run the body"); }
  catch (e in TypeError, KeyError) {
    handler_ran++; bound = e;
    ASSERT(REC.v.depth == OLD.depth, "the handler runs at the depth of the enclosing block");
  }
  ASSERT(handler_ran == 1 && expect_match, "a matching exception runs the handler exactly once");
  ASSERT(bound == kinds[in_o], "the object bound in the handler is the one that was thrown");
  ASSERT(REC.v.depth == OLD.depth, "after try/catch the nesting depth is what it was before");
  ASSERT(REC.v.active == false, "a handled exception never fires again in an enclosing block");
  COVER(handler_ran == 1, "handler ran");
}

/* lemma R: two activations of the same try block open at once (recursion / re-entrancy): each activation registers a jump
 * buffer of its own, so a throw in the inner one cannot re-enter it and the outer activation's buffer is still what setjmp filled */
static void activation(int d) {
  try {
    if (d > 0) activation(d - 1);
    else {
      ASSERT(REC.v.depth == OLD.depth + 2, "two activations of the block are open");
      jmp_buf* inner = REC.v.buffers[REC.v.depth - 1]; jmp_buf* outer = REC.v.buffers[REC.v.depth - 2];
      ASSERT(!__CPROVER_same_object(inner, outer), "every open activation of a try block registers its own jump buffer (recursive use of one block)");
      COVER(1, "innermost activation reached");
    }
  } catch (e in TypeError) { handler_ran = 1; }
}
void h_construct_reentrant(void) {
  arbitrary_record(); __CPROVER_assume(REC.v.depth + 2 < EXCEPTION_MAX_DEPTH);
  cv_setjmp_ret = 0; mode = M_NONE;
  activation(1);
  ASSERT(REC.v.depth == OLD.depth && !handler_ran, "after both activations complete the depth is what it was and no handler ran");
}

/* discharge of the eq contract used above: eq on Type objects is Type_Cmp == 0 (C08 dispatch pair (Type, Cmp)), Type_Cmp is
 * strcmp of the names (C09.Type_Cmp.k1), and the names of the exception kinds are pairwise different (here, on the
 * real static objects, with the reference strcmp) */
static int ref_strcmp(const char* a, const char* b) { size_t i = 0; while (a[i] != 0 && a[i] == b[i]) { i++; } return (int)(unsigned char)a[i] - (int)(unsigned char)b[i]; }
void h_eq_kinds(void) {
  var kinds[16] = { TypeError, ValueError, ClassError, IndexOutOfBoundsError, KeyError, OutOfMemoryError, IOError, FormatError,
    BusyError, ResourceError, ProgramAbortedError, DivisionByZeroError, IllegalInstructionError, ProgramInterruptedError,
    SegmentationError, ProgramTerminationError };
  for (int i = 0; i < 16; i++) for (int j = 0; j < 16; j++) {
    const char* ni = (const char*)((struct Type*)kinds[i])[(CELLO_CACHE_NUM / 3) + 0].inst;
    const char* nj = (const char*)((struct Type*)kinds[j])[(CELLO_CACHE_NUM / 3) + 0].inst;
    ASSERT((ref_strcmp(ni, nj) == 0) == (i == j), "the exception kinds have pairwise different names, so name equality is identity");
  }
  COVER(1, "eq_kinds reached");
}
