/* C14/C15, K3: the real print_to_with / scan_from_with scanners of src/Show.c on one format string per obligation set
 * (driver-enumerated over the property's grammar; the expected tokenisation comes from an independent tokenizer in the
 * driver), with format_to / format_from replaced by recording sinks and symbolic argument values. libc formatting itself
 * (what vsprintf writes for a specification) is assumed. */
#include "src/Show.c"
#ifdef CV_NUM_INLINE
#include "src/Num.c"     /* Int_Show / Int_Look are static: the round-trip obligations include the unit instead of linking it */
#endif
#include "contracts/common.h"
#include "gen_format.h"   /* FMT (string literal), NPIECES, piece_text[], piece_kind[], NARGS_NEEDED, NARGS_GIVEN */

enum { K_LIT = 0, K_PCT, K_INT, K_FLT, K_STR, K_CHR, K_PTR, K_SHOW };
var header_init(var head, var type, int alloc) { struct Header* self = head; self->type = type; self->alloc = (var)(intptr_t)alloc; self->magic = (var)CELLO_MAGIC_NUM; return ((char*)self) + sizeof(struct Header); }
var type_of(var self) { return HDR(self)->type; }
static int cv_streq(const char* a, const char* b) { size_t i = 0; while (a[i] != 0 && a[i] == b[i]) i++; return a[i] == b[i]; }

/* arguments: NARGS_GIVEN objects, one per specification in order (Int / Float / String / Ref as the kind needs) */
static struct { struct Header h; union { struct Int i; struct Float f; struct String s; struct Ref r; } v; } ARG[8];
static var args_tuple; static var arg_items[9]; static int64_t in_i[8]; static double in_f[8]; static char argstr[8][2];
size_t len(var self) { if (self == args_tuple) return NARGS_GIVEN; struct Tuple* t = self; size_t n = 0; while (t->items[n] != Terminal) n++; return n; }
var get(var self, var key) {
  int64_t i = ((struct Int*)key)->val;
  if (self == args_tuple) { __CPROVER_assert(i >= 0 && i < NARGS_GIVEN, "[C14][C12] an argument is fetched only if it exists (too few arguments raise FormatError before anything is read)"); __CPROVER_assume(i >= 0 && i < NARGS_GIVEN); return arg_items[i]; }
  return ((struct Tuple*)self)->items[i];
}
/* c_int / c_float are the real ones of src/Num.c (fast path on type_of) */
/* c_str is the real one of src/String.c (fast path on type_of) */
var instance(var self, var cls) { return NULL; }
/* dispatch cut: the numeric accessors of the other numeric type (C_Float of an Int, C_Int of a Float) are Num.c's conversions */
static double cv_int_as_float(var self) { return (double)((struct Int*)self)->val; }
static int64_t cv_float_as_int(var self) { return (int64_t)((struct Float*)self)->val; }
static struct C_Float cv_cfloat_of_int = { cv_int_as_float }; static struct C_Int cv_cint_of_float = { cv_float_as_int };
var method_at_offset(var self, var cls, size_t offset, const char* m) {
  if (cls == C_Float && HDR(self)->type == Int) return &cv_cfloat_of_int;
  if (cls == C_Int && HDR(self)->type == Float) return &cv_cint_of_float;
  CV_LIMIT(0, "harness: no other method dispatch expected"); return NULL; }
var assign(var self, var obj) {
  if (HDR(self)->type == Int) ((struct Int*)self)->val = ((struct Int*)obj)->val;
  else if (HDR(self)->type == Float) ((struct Float*)self)->val = ((struct Float*)obj)->val;
  return self;
}
static int expect_throw;
void cv_on_throw(var obj) { ASSERT(expect_throw && obj == FormatError, "[C14][C12] FormatError exactly when there are fewer arguments than specifications"); }

static int in_pos; static var out; static OBJ(Ref, OUT); static int cv_piece; static int cv_ret[NPIECES + 1]; static int cv_running;
static int cv_shows;
/* the sink: called once per piece, in order, with the piece's text as its own NUL-terminated format and the value fetched
 * through the accessor that matches the conversion */
/* decoding of one conversion specification as libc does: length modifier -> width in bytes of the C value, signedness */
struct cv_spec { int is_i, is_u, is_f, width, big; };
static struct cv_spec cv_decode(const char* fmt) {
  struct cv_spec r = { 0, 0, 0, 4, 0 }; int nl = 0, nh = 0; size_t i = 0;
  while (fmt[i] != 0 && fmt[i] != '%') i++;
  if (fmt[i] != '%') return r;
  for (i++; fmt[i] != 0; i++) {
    char c = fmt[i];
    if (c == 'l') nl++; else if (c == 'j' || c == 'z' || c == 't') nl = 2; else if (c == 'h') nh++; else if (c == 'L') r.big = 1;
    else if (c == 'd' || c == 'i') { r.is_i = 1; break; } else if (c == 'u' || c == 'o' || c == 'x' || c == 'X') { r.is_u = 1; break; }
    else if (c == 'f' || c == 'F' || c == 'e' || c == 'E' || c == 'g' || c == 'G') { r.is_f = 1; break; }
  }
  r.width = nl ? 8 : nh >= 2 ? 1 : nh == 1 ? 2 : 4;      /* LP64: long and long long are 8 bytes */
  return r;
}
static int64_t cv_narrow(int64_t v, int width, int is_unsigned) {
  if (width == 8) return v;
  if (width == 4) return is_unsigned ? (int64_t)(uint32_t)v : (int64_t)(int32_t)v;
  if (width == 2) return is_unsigned ? (int64_t)(uint16_t)v : (int64_t)(int16_t)v;
  return is_unsigned ? (int64_t)(uint8_t)v : (int64_t)(int8_t)v;
}
#define CV_MAXOUT 96
static int cv_outs[CV_MAXOUT]; static int cv_out_n; static int cv_spec_seen;
static void cv_log(int x) { if (cv_out_n < CV_MAXOUT) cv_outs[cv_out_n] = x; cv_out_n++; }
static int cv_is_conv(char c) { const char* L = "diuoxXfFeEgGaAcsp$"; for (int k = 0; L[k] != 0; k++) if (L[k] == c) return 1; return 0; }
static int cv_spec_piece(int a) { for (int p = 0; p < NPIECES; p++) if (piece_kind[p] != K_LIT && piece_kind[p] != K_PCT && piece_arg[p] == a) return p; return 0; }
static int cv_roundtrip; static int cv_to_calls; static double gh_f; static int64_t gh_i; static int gh_n;
int cv_format_to(var self, int pos, const char* fmt, ...) {
  if (cv_roundtrip) {   /* C15 writer side: libc prints the argument with the width the conversion names (assumed); the text stands for that value */
    cv_to_calls++;
    struct cv_spec sp = cv_decode(fmt);
    __CPROVER_assert(sp.is_i || sp.is_u || sp.is_f, "[C15] the writer sends one numeric conversion specification");
    va_list va; va_start(va, fmt);
    if (sp.is_i || sp.is_u) { int64_t v = va_arg(va, int64_t); gh_i = cv_narrow(v, sp.width, sp.is_u); }   /* the text stands for the value libc prints */
    if (sp.is_f) { double v = va_arg(va, double); __CPROVER_assert(!sp.big, "[C15] a double is not printed with a long double conversion"); gh_f = v; }
    va_end(va);
    __CPROVER_assert(self == out && pos == in_pos, "[C15] the value is written to the sink at the given position");
    return gh_n;
  }
  /* C14: the sink tokenises whatever format text it is handed (any grouping of literal text and specifications into calls is
   * accepted) and appends to the abstract output: one entry per literal character (%% counts as the character %), one entry per
   * conversion specification, which must be the next specification of the format, verbatim, with its own argument fetched through
   * the accessor the conversion letter names. It returns what libc returns: one per literal character plus the (arbitrary) length
   * of each converted value. */
  __CPROVER_assert(self == out && pos == cv_running, "[C14] every piece goes to the sink at the position where the previous one ended");
  va_list va; va_start(va, fmt); int ret = 0; size_t i = 0;
  while (fmt[i] != 0) {
    if (fmt[i] != '%') { cv_log((unsigned char)fmt[i]); ret++; i++; continue; }
    if (fmt[i + 1] == '%') { cv_log('%'); ret++; i += 2; continue; }
    size_t j = i + 1; while (fmt[j] != 0 && !cv_is_conv(fmt[j])) j++;
    __CPROVER_assert(fmt[j] != 0, "[C14] a specification handed to the sink is complete");
    if (fmt[j] == 0) break;
    int a = cv_spec_seen++;
    __CPROVER_assert(a < NARGS_NEEDED, "[C14] no more specifications reach the sink than the format has");
    int p = cv_spec_piece(a);
    int same = 1; for (size_t k = 0; k <= j - i; k++) same = same && piece_text[p][k] == fmt[i + k]; same = same && piece_text[p][j - i + 1] == 0;
    __CPROVER_assert(same, "[C14] each conversion specification reaches the sink verbatim (flags, width, precision, length modifier, conversion)");
    char c = fmt[j];
    if (c == 'd' || c == 'i' || c == 'u' || c == 'o' || c == 'x' || c == 'X' || c == 'c') { int64_t v = va_arg(va, int64_t); __CPROVER_assert(v == in_i[a], "[C14] an integer / character conversion receives c_int of its argument"); }
    else if (c == 's') { char* v = va_arg(va, char*); __CPROVER_assert(v == argstr[a], "[C14] %s receives c_str of its argument"); }
    else if (c == 'p') { var v = va_arg(va, var); __CPROVER_assert(v == arg_items[a], "[C14] %p receives the object itself"); }
    else {
      int big = 0; for (size_t k = i; k < j; k++) if (fmt[k] == 'L') big = 1;
      /* libc reads the C value the specification names: a long double under the L length modifier, a double otherwise */
      if (big) { long double v = va_arg(va, long double); __CPROVER_assert((double)v == in_f[a] || (v != v && in_f[a] != in_f[a]), "[C14] a floating conversion with the L length modifier receives c_float of its argument as a long double"); }
      else { double v = va_arg(va, double); __CPROVER_assert(v == in_f[a] || (v != v && in_f[a] != in_f[a]), "[C14] a floating conversion receives c_float of its argument"); }
    }
    cv_log(1000 + a); ret += cv_ret[p]; i = j + 1;
  }
  va_end(va);
  cv_running += ret;
  return ret;
}
int cv_show_to(var self, var o, int pos) {      /* %$: show_to of the argument at the current position */
  int a = cv_spec_seen++;
  __CPROVER_assert(a < NARGS_NEEDED && piece_kind[cv_spec_piece(a)] == K_SHOW, "[C14] %$ calls show exactly for a %$ specification");
  int p = cv_spec_piece(a);
  __CPROVER_assert(self == arg_items[a] && o == out && pos == cv_running, "[C14] %$ shows the next argument at the current position");
  cv_shows++; cv_log(1000 + a); cv_running += cv_ret[p];
  return cv_running;
}
static void build_args(void) {
  out = MK(OUT, Ref, AllocStack); args_tuple = &arg_items;
  for (int a = 0; a < NARGS_GIVEN; a++) {
    int k = arg_kind[a];
    if (k == K_FLT) { arg_items[a] = header_init(&ARG[a].h, Float, AllocStack); in_f[a] = nondet_double(); ARG[a].v.f.val = in_f[a]; }
    else if (k == K_STR) { arg_items[a] = header_init(&ARG[a].h, String, AllocStack); ARG[a].v.s.val = argstr[a]; }
    else if (k == K_PTR || k == K_SHOW) { arg_items[a] = header_init(&ARG[a].h, Ref, AllocStack); }
    else { arg_items[a] = header_init(&ARG[a].h, Int, AllocStack); in_i[a] = nondet_long(); ARG[a].v.i.val = in_i[a]; }
  }
  in_pos = nondet_int(); __CPROVER_assume(in_pos >= 0 && in_pos <= 1000); cv_running = in_pos;
  for (int p = 0; p < NPIECES; p++) { cv_ret[p] = nondet_int(); __CPROVER_assume(cv_ret[p] >= 0 && cv_ret[p] <= 1000); }
}
void h_print(void) {
  build_args();
  expect_throw = (NARGS_GIVEN < NARGS_NEEDED);
  COVER(1, "print_to called");
  int r = print_to_with(out, in_pos, FMT, args_tuple);
  ASSERT(NARGS_GIVEN >= NARGS_NEEDED, "[C14][C12] too few arguments raise FormatError");
  /* the expected abstract output, from the driver's independent tokenisation */
  int ex[CV_MAXOUT]; int exn = 0; int sum = in_pos;
  for (int p = 0; p < NPIECES; p++) {
    if (piece_kind[p] == K_LIT) { for (size_t k = 0; piece_text[p][k] != 0; k++) { if (exn < CV_MAXOUT) ex[exn] = (unsigned char)piece_text[p][k]; exn++; sum++; } }
    else if (piece_kind[p] == K_PCT) { if (exn < CV_MAXOUT) ex[exn] = '%'; exn++; sum++; }
    else { if (exn < CV_MAXOUT) ex[exn] = 1000 + piece_arg[p]; exn++; sum += cv_ret[p]; }
  }
  ASSERT(cv_out_n == exn && exn <= CV_MAXOUT, "[C14] everything the format says is written, each literal character and each specification once, and nothing else");
  for (int k = 0; k < exn && k < CV_MAXOUT; k++) ASSERT(cv_outs[k] == ex[k], "[C14] the characters and conversions reach the sink in the order of the format");
  ASSERT(r == sum, "[C14] the returned position is the start position plus the number of characters written");
}
/* ---- C15: the numeric readers use a conversion as wide as the value, consume what the writer wrote ---- */
static const char* cv_from_fmt; static int cv_from_calls;
int cv_format_from(var self, int pos, const char* fmt, ...) {
  cv_from_calls++; cv_from_fmt = fmt;
  va_list va; va_start(va, fmt);
  struct cv_spec sp = cv_decode(fmt);
  /* libc stores through the pointer with the width the conversion names, and nothing beyond it */
  if (sp.is_f) { if (sp.big) { long double* p = va_arg(va, long double*); *p = gh_f; } else if (sp.width == 8) { double* p = va_arg(va, double*); *p = gh_f; } else { float* p = va_arg(va, float*); *p = (float)gh_f; } }
  if (sp.is_i || sp.is_u) {
    if (sp.width == 8) { int64_t* p = va_arg(va, int64_t*); *p = gh_i; }
    else if (sp.width == 4) { int32_t* p = va_arg(va, int32_t*); *p = (int32_t)gh_i; }
    else if (sp.width == 2) { int16_t* p = va_arg(va, int16_t*); *p = (int16_t)gh_i; }
    else { int8_t* p = va_arg(va, int8_t*); *p = (int8_t)gh_i; }
  }
  int* n = va_arg(va, int*); *n = gh_n;
  va_end(va);
  return 1;
}
int Float_Look(var self, var input, int pos);
void h_look_float(void) {
  OBJ(Float, X); struct Float* x = MK(X, Float, AllocHeap); out = MK(OUT, Ref, AllocStack); args_tuple = NULL;
  gh_f = nondet_double(); gh_n = nondet_int(); in_pos = nondet_int();
  __CPROVER_assume(gh_f == gh_f && gh_f > -1e15 && gh_f < 1e15 && gh_n >= 1 && gh_n <= 400 && in_pos >= 0 && in_pos <= 1000);
  int r = Float_Look(x, out, in_pos);
  double d = x->val - gh_f; if (d < 0) d = -d;
  ASSERT(d <= 5e-7, "[C15] a Float read back equals the value written to within the printed precision (the reader stores with double width)");
  ASSERT(r == in_pos + gh_n && cv_from_calls == 1, "[C15] look consumes exactly the characters that were written");
  COVER(gh_f > 1e8, "a value float cannot hold exactly");
}
int cv_float_show_fmt_ok;
void h_look_int(void) {
  OBJ(Int, X); struct Int* x = MK(X, Int, AllocHeap); out = MK(OUT, Ref, AllocStack);
  gh_i = nondet_long(); gh_n = nondet_int(); in_pos = nondet_int(); __CPROVER_assume(gh_n >= 1 && gh_n <= 40 && in_pos >= 0 && in_pos <= 1000);
  OBJ(Int, T); var t = MK(T, Int, AllocStack);
  arg_items[0] = x; args_tuple = &arg_items;
  int r = scan_from_with(out, in_pos, "%li", args_tuple);
  ASSERT(x->val == gh_i, "[C15] an Int read back with the writer's conversion equals the value written, over the whole int64 range");
  ASSERT(r == in_pos + gh_n, "[C15] scan consumes exactly the characters that were written");
  COVER(gh_i > (1LL << 40), "a value beyond 32 bits");
}

#ifdef PS_W
/* ---- C15: print_to with one numeric specification PS_W, read back by scan_from with PS_R, value in [PS_LO, PS_HI] ---- */
void h_print_scan(void) {
  OBJ(Int, X); OBJ(Int, Y); struct Int* x = MK(X, Int, AllocHeap); struct Int* y = MK(Y, Int, AllocHeap); out = MK(OUT, Ref, AllocStack);
  x->val = nondet_long(); y->val = nondet_long(); gh_n = nondet_int(); in_pos = nondet_int();
  __CPROVER_assume(x->val >= PS_LO && x->val <= PS_HI && gh_n >= 1 && gh_n <= 40 && in_pos >= 0 && in_pos <= 1000);
  int64_t v0 = x->val; cv_roundtrip = 1; args_tuple = &arg_items;
  arg_items[0] = x; int w = print_to_with(out, in_pos, PS_W, args_tuple);
  ASSERT(cv_to_calls == 1 && w == in_pos + gh_n, "[C15] print_to writes the value once and returns the end of the text");
  arg_items[0] = y; int r = scan_from_with(out, in_pos, PS_R, args_tuple);
  ASSERT(y->val == v0, "[C15] an Int written by print_to with a numeric specification is read back by scan_from with the same specification into an equal Int (every value the C type of the specification holds)");
  ASSERT(r == w && cv_from_calls == 1, "[C15] scan_from consumes exactly the characters print_to wrote");
  COVER(v0 == PS_LO, "the lowest value of the C type"); COVER(v0 == PS_HI, "the highest value of the C type");
}
#endif
#ifdef CV_NUM_INLINE
/* ---- C15: the real Int_Show composed with the real Int_Look (and Float likewise) through print_to_with / scan_from_with ---- */
void h_show_look_int(void) {
  OBJ(Int, X); OBJ(Int, Y); struct Int* x = MK(X, Int, AllocHeap); struct Int* y = MK(Y, Int, AllocHeap); out = MK(OUT, Ref, AllocStack); args_tuple = NULL;
  x->val = nondet_long(); y->val = nondet_long(); gh_n = nondet_int(); in_pos = nondet_int(); __CPROVER_assume(gh_n >= 1 && gh_n <= 40 && in_pos >= 0 && in_pos <= 1000);
  int64_t v0 = x->val; cv_roundtrip = 1;
  int w = Int_Show(x, out, in_pos);
  ASSERT(cv_to_calls == 1 && w == in_pos + gh_n && x->val == v0, "[C15] show writes the Int once and returns the end of the text");
  int r = Int_Look(y, out, in_pos);
  ASSERT(y->val == v0, "[C15] look(show(x)) gives an Int equal to x over the whole int64 range (writer and reader conversions as wide as the value)");
  ASSERT(r == w && cv_from_calls == 1, "[C15] look consumes exactly the characters show wrote");
  COVER(v0 > (1LL << 40), "a value beyond 32 bits"); COVER(v0 < -(1LL << 40), "a negative value beyond 32 bits");
}
void h_show_look_float(void) {
  OBJ(Float, X); OBJ(Float, Y); struct Float* x = MK(X, Float, AllocHeap); struct Float* y = MK(Y, Float, AllocHeap); out = MK(OUT, Ref, AllocStack); args_tuple = NULL;
  x->val = nondet_double(); y->val = nondet_double(); gh_n = nondet_int(); in_pos = nondet_int();
  __CPROVER_assume(x->val == x->val && x->val > -1e15 && x->val < 1e15 && gh_n >= 1 && gh_n <= 400 && in_pos >= 0 && in_pos <= 1000);
  double v0 = x->val; cv_roundtrip = 1;
  int w = Float_Show(x, out, in_pos);
  ASSERT(cv_to_calls == 1 && w == in_pos + gh_n, "[C15] show writes the Float once and returns the end of the text");
  int r = Float_Look(y, out, in_pos);
  double d = y->val - v0; if (d < 0) d = -d;
  ASSERT(d <= 5e-7, "[C15] look(show(x)) gives a Float equal to x to within the printed precision");
  ASSERT(r == w && cv_from_calls == 1, "[C15] look consumes exactly the characters show wrote");
  COVER(v0 > 1e8, "a value float cannot hold exactly");
}
#endif
