#include "src/Type.c"
#include "contracts/common.h"
const char* cv_sl_p; size_t cv_sl_ret; uint64_t cv_hd_ret;
size_t strlen(const char* s)
__CPROVER_requires(s == cv_sl_p) __CPROVER_ensures(__CPROVER_return_value == cv_sl_ret) __CPROVER_assigns();
uint64_t hash_data(const void* data, size_t size)
__CPROVER_requires(data == cv_sl_p && size == cv_sl_ret) __CPROVER_ensures(__CPROVER_return_value == cv_hd_ret) __CPROVER_assigns();
#define TNAME(t) ((const char*)((struct Type*)(t))[(CELLO_CACHE_NUM / 3) + 0].inst)
static uint64_t Type_Hash(var self)
__CPROVER_requires(__CPROVER_r_ok(self, sizeof(struct Type) * CELLO_NBUILTINS) && TNAME(self) == cv_sl_p)
__CPROVER_ensures(__CPROVER_return_value == cv_hd_ret)
__CPROVER_assigns()
;
void h_Type_Hash(void) {
  struct { struct Header h; struct Type t[CELLO_NBUILTINS + 1]; } A;
  var a = header_init(&A.h, Type, AllocStatic);
  A.t[CELLO_CACHE_NUM / 3].inst = nondet_ptr();
  cv_sl_p = TNAME(a); cv_sl_ret = nondet_ulong(); cv_hd_ret = nondet_ulong();
  uint64_t h = Type_Hash(a);
  COVER(h != 0, "Type_Hash reached");
}
