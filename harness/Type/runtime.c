/* C08, K3: run-time types. The real Type_Alloc + Type_New build a type record from an instance list of NINST entries
 * (NINST <= 3, instance classes K0,K1,K2 chosen by the driver from four class objects named "A","AB","B","BA" - names
 * that are prefixes of each other), then every lookup agrees with the independent ghost scan. */
#include "src/Type.c"
#include "contracts/common.h"
#include "contracts/typescan.h"

#ifndef NINST
#define NINST 2
#define K0 CA
#define K1 CAB
#endif

/* dispatch cuts for the argument tuple of Type_New (contracts: len/get of a Tuple = its items, c_str of a String = its
 * buffer, c_str of a class object = its name, c_int of an Int = its value; discharged under C08.dispatch / C09 / C11) */
static var* cv_items; static size_t cv_nitems;
size_t len(var self) { return cv_nitems; }
var get(var self, var key) { int64_t i = ((struct Int*)key)->val; __CPROVER_assert(i >= 0 && (size_t)i < cv_nitems, "get within the argument tuple"); return cv_items[i]; }
char* c_str(var self) { return HDR(self)->type == String ? ((struct String*)self)->val : (char*)cv_type_name(self); }
int64_t c_int(var self) { return ((struct Int*)self)->val; }
static int cv_expect_cast_throw;
void cv_on_throw(var obj) { ASSERT(obj == OutOfMemoryError || (cv_expect_cast_throw && obj == ValueError), "no exception while building / querying a run-time type"); }

/* allocator model: calloc hands out a zeroed block that is *typed* as (Header, Type[]) so that symex can fold field reads
 * (an untyped byte block makes every t->name a byte_extract over symbolic bytes); the requested size is recorded and checked */
static struct cv_blk { struct Header h; struct Type t[CELLO_NBUILTINS + CELLO_MAX_INSTANCES + 1]; } cv_blk;
static size_t cv_calloc_size;
void* calloc(size_t n, size_t s) { cv_calloc_size = n * s; if (nondet_bool()) return NULL; cv_blk = (struct cv_blk){{0}}; return &cv_blk; }

#define CLASS_OBJ(NAME, STR) static var NAME##_rec[] = { NULL, (var)AllocStatic, (var)CELLO_MAGIC_NUM, CELLO_CACHE_HEADER NULL, "__Name", STR, NULL, "__Size", (var)8, NULL, NULL, NULL }; \
  static var NAME = (var)((char*)NAME##_rec + sizeof(struct Header));
CLASS_OBJ(CA, "A") CLASS_OBJ(CAB, "AB") CLASS_OBJ(CB, "B") CLASS_OBJ(CBA, "BA")
CLASS_OBJ(CRT, "RT")        /* a static type that merely shares its name with the run-time type built below */

void h_runtime(void) {
  struct { struct Header h; var member; } I0, I1, I2;
  var insts[3] = { NULL, NULL, NULL };
#if NINST >= 1
  insts[0] = header_init(&I0.h, K0, AllocStatic);
#endif
#if NINST >= 2
  insts[1] = header_init(&I1.h, K1, AllocStatic);
#endif
#if NINST >= 3
  insts[2] = header_init(&I2.h, K2, AllocStatic);
#endif
  var T = Type_Alloc();
  ASSERT(cv_calloc_size >= sizeof(struct Header) + sizeof(struct Type) * (CELLO_NBUILTINS + 256 + 1), "a run-time type has room for the built-in entries, 256 instances and the terminator");
  ASSERT(HDR(T)->type == Type && HDR(T)->alloc == (var)AllocHeap, "[C19] a run-time type object is a heap object of type Type");
#if NINST == 0
  var args = tuple($S("RT"), $I(16));
#elif NINST == 1
  var args = tuple($S("RT"), $I(16), insts[0]);
#elif NINST == 2
  var args = tuple($S("RT"), $I(16), insts[0], insts[1]);
#else
  var args = tuple($S("RT"), $I(16), insts[0], insts[1], insts[2]);
#endif
  cv_items = ((struct Tuple*)args)->items; cv_nitems = NINST + 2;
  Type_New(T, args);
  ASSERT(cv_streq(cv_type_name(T), "RT") && size(T) == 16, "[C19] a run-time type carries the name and size it was created with");
  var classes[4] = { CA, CAB, CB, CBA };
  var kinds[3] = {
#if NINST >= 1
    K0,
#else
    NULL,
#endif
#if NINST >= 2
    K1,
#else
    NULL,
#endif
#if NINST >= 3
    K2
#else
    NULL
#endif
  };
  for (int c = 0; c < 4; c++) {
    var want = NULL;                       /* the declared instance: first entry whose class is classes[c] */
    for (int i = NINST - 1; i >= 0; i--) { if (kinds[i] == classes[c]) want = insts[i]; }
    ASSERT(cv_decl(T, cv_type_name(classes[c])) == want, "Type_New stores each instance under the name of its class, in order");
    ASSERT(type_instance(T, classes[c]) == want, "run-time type: type_instance returns exactly the declared instance");
    ASSERT(type_implements(T, classes[c]) == (want != NULL), "run-time type: type_implements iff declared");
    ASSERT(type_instance(T, classes[c]) == want, "run-time type: repeated lookup gives the same answer");
  }
  COVER(1, "runtime type built and queried");
  /* two different types with the same name: cast is by identity of the type object, not by name */
  struct { struct Header h; int64_t body[2]; } O; var o = header_init(&O.h, CRT, AllocStack);
  ASSERT(cast(o, CRT) == o, "[C08] cast to the object's own type is the identity");
  cv_expect_cast_throw = 1;
  cast(o, T);
  ASSERT(0, "[C08][C12] cast to a different type raises ValueError even when the two types carry the same name");
}
