/* K1: Type_Cmp returns strcmp of the two type names (name order) */
#include "src/Type.c"
#include "contracts/Str.h"
const char *cv_strcmp_a, *cv_strcmp_b; int cv_strcmp_ret;

/* cast as seen from Type_Cmp: identity on an object whose type is the requested one */
var cast(var self, var type)
__CPROVER_requires(HDR(self)->type == type || (type == Type && HDR(self)->type == NULL))
__CPROVER_ensures(__CPROVER_return_value == self)
__CPROVER_assigns()
;
#define TNAME(t) ((const char*)((struct Type*)(t))[(CELLO_CACHE_NUM / 3) + 0].inst)
static int Type_Cmp(var self, var obj)
__CPROVER_requires(__CPROVER_r_ok(self, sizeof(struct Type) * CELLO_NBUILTINS) && __CPROVER_r_ok(HDR(obj), sizeof(struct Header) + sizeof(struct Type) * CELLO_NBUILTINS))
__CPROVER_requires(HDR(obj)->type == Type || HDR(obj)->type == NULL)
__CPROVER_requires(cv_strcmp_a == TNAME(self) && cv_strcmp_b == TNAME(obj))
__CPROVER_ensures(__CPROVER_return_value == cv_strcmp_ret)
__CPROVER_assigns()
;
void h_Type_Cmp(void) {
  struct { struct Header h; struct Type t[CELLO_NBUILTINS + 1]; } A, B;
  var a = header_init(&A.h, nondet_bool() ? Type : NULL, AllocStatic);
  var b = header_init(&B.h, nondet_bool() ? Type : NULL, AllocStatic);
  A.t[CELLO_CACHE_NUM / 3].inst = nondet_ptr(); B.t[CELLO_CACHE_NUM / 3].inst = nondet_ptr();
  cv_strcmp_a = TNAME(a); cv_strcmp_b = TNAME(b); cv_strcmp_ret = nondet_int();
  int r = Type_Cmp(a, b);
  COVER(r > 0, "Type_Cmp positive"); COVER(r == 0, "Type_Cmp zero");
}
