/* C08, K2: for one real static type object T (TYPE_UNDER_TEST) and every class object C of the real library:
 * type_instance / instance / implements / type_implements / method lookup agree with the independent ghost scan
 * decl(T, C) over the raw record - cold, warm, and again in the opposite class order - and the record invariant
 * wf_type(T) holds afterwards (every cache slot is NULL or decl(T, its class)). */
#include "src/Type.c"
#include "contracts/common.h"
#include "contracts/typescan.h"
#include "gen_objects.h"     /* generated on every run from 'var X = Cello...(' definitions in src/*.c */

static int expect_throw; static var expect_exc;
void cv_on_throw(var obj) {
  ASSERT(expect_throw, "no exception from a lookup that the type declares");
  ASSERT(!expect_throw || obj == expect_exc, "[C08][C12] the documented exception kind is raised");
}
static var slot_class(int i) {
  var k[18] = { Size, Alloc, New, Assign, Cmp, Mark, Hash, Len, Iter, Push, Concat, Get, C_Str, C_Int, C_Float, Current, Cast, Pointer };
  return k[i];
}
static void check_wf_type(var T) {
#if CELLO_CACHE == 1
  for (int i = 0; i < CELLO_CACHE_NUM; i++) {
    var s = ((var*)T)[i];
    ASSERT(s == NULL || s == cv_decl(T, cv_type_name(slot_class(i))), "wf_type: a cache slot is empty or holds the instance declared for its class");
  }
#endif
  for (struct Type* t = (struct Type*)T + CV_NBUILTINS; t->name; t++) {
    ASSERT(t->cls == NULL || cv_streq(cv_type_name(t->cls), (const char*)t->name), "wf_type: a memoised class has the entry's name");
  }
}
static void check_pair(var T, var obj, var C) {
  var want = cv_decl(T, cv_type_name(C));
  var got = type_instance(T, C);
  ASSERT(got == want, "type_instance returns exactly the declared instance (or NULL)");
  ASSERT(type_implements(T, C) == (want != NULL), "type_implements iff declared");
  ASSERT(instance(obj, C) == want, "instance(obj) returns exactly the declared instance");
  ASSERT(implements(obj, C) == (want != NULL), "implements iff declared");
  ASSERT(type_instance(T, C) == want, "repeated lookup gives the same answer");
  if (want != NULL) {
    var m0 = *(var*)want;
    ASSERT(type_implements_method_at_offset(T, C, 0) == (m0 != NULL), "implements_method iff the member is set");
    if (m0 != NULL) { ASSERT(type_method_at_offset(T, C, 0, "m") == want && method_at_offset(obj, C, 0, "m") == want, "method lookup returns the declared instance"); }
  } else {
    ASSERT(!type_implements_method_at_offset(T, C, 0), "no member of an undeclared class");
  }
}
void h_dispatch(void) {
  var T = TYPE_UNDER_TEST;
  struct { struct Header h; char body[8]; } O;
  var obj = header_init(&O.h, T, AllocStack);
  ASSERT(type_of(obj) == T, "[C19] type_of gives the constructing type");
  for (int i = 0; i < CV_NCLASSES; i++) { check_pair(T, obj, cv_classes[i]); }
  check_wf_type(T);
#ifdef CV_REVERSE_PASS
  for (int i = CV_NCLASSES - 1; i >= 0; i--) { check_pair(T, obj, cv_classes[i]); }
  check_wf_type(T);
#else
  /* quick tier: second look at the classes that have a cache slot, now that every slot has been filled (a slot shared by two
   * classes answers the first correctly when cold and the second wrongly when warm) */
  for (int i = CELLO_CACHE_NUM - 1; i >= 0; i--) { var C = slot_class(i); ASSERT(type_instance(T, C) == cv_decl(T, cv_type_name(C)) && instance(obj, C) == cv_decl(T, cv_type_name(C)), "warm lookup of a cached class returns exactly the declared instance"); }
  check_wf_type(T);
#endif
  ASSERT(cv_throws == 0, "no exception during declared lookups");
  COVER(cv_decl(T, "Doc") != NULL || 1, "dispatch reached");
}
/* calling a member of a class the type does not implement, or a member it leaves empty: ClassError, nothing invoked */
void h_method_missing(void) {
  var T = TYPE_UNDER_TEST;
  int in_c = nondet_int(); __CPROVER_assume(in_c >= 0 && in_c < CV_NCLASSES);
  var C = cv_classes[in_c];
  var want = cv_decl(T, cv_type_name(C));
  __CPROVER_assume(want == NULL || *(var*)want == NULL);
  expect_throw = 1; expect_exc = ClassError;
  COVER(want == NULL, "undeclared class");
  type_method_at_offset(T, C, 0, "m");
  ASSERT(0, "[C08][C12] method lookup of an unimplemented class or empty member does not return (ClassError instead of invoking anything)");
}
/* cast, type_of on NULL / on a corrupted or freed header: ValueError instead of invoking anything */
void h_cast(void) {
  var T = TYPE_UNDER_TEST;
  struct { struct Header h; char body[8]; } O;
  var obj = header_init(&O.h, T, AllocStack);
  ASSERT(cast(obj, T) == obj, "[C08] cast to the object's own type is the identity");
  ASSERT(cv_throws == 0, "no exception from an identity cast");
  int in_case = nondet_int(); __CPROVER_assume(in_case >= 0 && in_case <= 3);
  expect_throw = 1; expect_exc = ValueError;
  COVER(in_case == 0, "cast to a different type"); COVER(in_case == 2, "bad magic number"); COVER(in_case == 3, "freed object");
  if (in_case == 0) { cast(obj, T == Int ? Float : Int); }
  else if (in_case == 1) { type_of(NULL); }
#if CELLO_MAGIC_CHECK == 1
  else if (in_case == 2) { O.h.magic = (var)0x1234; type_of(obj); }
  else { O.h.magic = (var)0xDeadCe110; type_of(obj); }
#else
  else { cast(obj, T == Int ? Float : Int); }
#endif
  ASSERT(0, "[C08][C12] cast to a different type, type_of(NULL) and type_of of a corrupted or freed object raise ValueError instead of returning");
}
