/* C03, K2 (loop-free, full domain): the four accessors that pack the colour bit into the parent word, against the two-field
 * model used by the tree harnesses: for every 2-aligned parent pointer, set_parent keeps the colour, set_color keeps the
 * parent, and the getters return what was set. */
#include "src/Tree.c"
#include "contracts/common.h"
void cv_on_throw(var obj) {}
void h_accessors(void) {
  struct { var left, right, word; char rest[80]; } NODE; static struct Tree T;
  var node = &NODE;
  var in_p = nondet_ptr(), in_q = nondet_ptr(); bool in_c = nondet_bool(), in_d = nondet_bool();
  __CPROVER_assume((((uintptr_t)in_p) & 1) == 0 && (((uintptr_t)in_q) & 1) == 0);     /* calloc results are at least 2-aligned (assumed) */
  NODE.word = (var)(((uintptr_t)in_p) | (in_c ? 1 : 0));                                  /* model state: parent in_p, colour in_c */
  ASSERT(Tree_Get_Parent(&T, node) == in_p && Tree_Get_Color(&T, node) == in_c, "[C03] the getters read the two fields of the packed word");
  Tree_Set_Parent(&T, node, in_q);
  ASSERT(Tree_Get_Parent(&T, node) == in_q && Tree_Get_Color(&T, node) == in_c, "[C03] set_parent stores the parent and keeps the colour");
  Tree_Set_Color(&T, node, in_d);
  ASSERT(Tree_Get_Parent(&T, node) == in_q && Tree_Get_Color(&T, node) == in_d, "[C03] set_color stores the colour and keeps the parent");
  ASSERT(Tree_Is_Red(&T, node) == in_d && Tree_Is_Black(&T, node) == !in_d && Tree_Get_Color(&T, NULL) == 0 && Tree_Is_Black(&T, NULL), "[C03] is_red / is_black follow the colour; a missing child counts as black");
  Tree_Set_Red(&T, node); ASSERT(Tree_Is_Red(&T, node) && Tree_Get_Parent(&T, node) == in_q, "[C03] set_red");
  Tree_Set_Black(&T, node); ASSERT(Tree_Is_Black(&T, node) && Tree_Get_Parent(&T, node) == in_q, "[C03] set_black");
  ASSERT(NODE.left == NODE.left && *Tree_Left(&T, node) == NODE.left && *Tree_Right(&T, node) == NODE.right, "[C03] left/right are the first two words");
  COVER(in_c && !in_d, "colour flips"); COVER(in_p != in_q, "parent changes");
}
