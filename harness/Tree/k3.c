/* C03/C05/C11/C12/C19, K3: one real Tree operation on one concrete red-black shape (every shape with <= N nodes is emitted by
 * the driver, keys = 2*rank so that every gap has an integer, operand = every present key and every gap), values symbolic.
 * The four accessors that pack colour and parent into one word are replaced by a two-field model (their own K1 contracts
 * are C03.accessors.k1); calloc/free are a typed node pool, so use-after-free and double free are assertions here. */
#include "src/Tree.c"
#define CV_LEDGER_LIGHT 1
#include "contracts/elem.h"
#include "gen_shape.h"      /* SH_N, SH_ROOT, sh_left[], sh_right[], sh_parent[], sh_red[], sh_key[] */

#ifndef OPKEY
#define OPKEY 1
#endif
#define NPOOL (SH_N + 2)
struct TNode { var left; var right; var parentword; struct Header kh; struct Elem k; struct Header vh; struct Elem v; };
static struct TNode POOL[NPOOL]; static int cv_used[NPOOL], cv_dead[NPOOL]; static int cv_frees;
static var cv_par[NPOOL]; static bool cv_red[NPOOL];
static int idx(var node) { return (int)(((char*)node - (char*)POOL) / (long)sizeof(struct TNode)); }
static int valid_node(var node) { int i = idx(node); return node == (var)&POOL[i] && i >= 0 && i < NPOOL && cv_used[i] && !cv_dead[i]; }
/* two-field model of the packed word */
var cv_get_parent(struct Tree* m, var node) { __CPROVER_assert(valid_node(node), "[C03] parent read of a live node (no use after free)"); return cv_par[idx(node)]; }
void cv_set_parent(struct Tree* m, var node, var ptr) { __CPROVER_assert(valid_node(node), "[C03] parent write to a live node (no use after free)"); cv_par[idx(node)] = ptr; }
void cv_set_color(struct Tree* m, var node, bool col) { __CPROVER_assert(valid_node(node), "[C03] colour write to a live node (no use after free)"); cv_red[idx(node)] = col; }
bool cv_get_color(struct Tree* m, var node) { if (node == NULL) return 0; __CPROVER_assert(valid_node(node), "[C03] colour read of a live node (no use after free)"); return cv_red[idx(node)]; }
void* calloc(size_t n, size_t s) {
  CV_LIMIT(n * s == sizeof(struct TNode), "harness: a Tree entry is links + key object + value object");
  for (int i = 0; i < NPOOL; i++) if (!cv_used[i]) { cv_used[i] = 1; POOL[i] = (struct TNode){0}; return &POOL[i]; }
  CV_LIMIT(0, "harness: node pool large enough"); return NULL;
}
void free(void* p) {
  if (p == NULL) return;
  __CPROVER_assert(valid_node(p), "[C05] a Tree entry is freed once, and only an allocated one");
  cv_dead[idx(p)] = 1; cv_frees++;
}
/* ghost operand map for cmp: MOP entries (key, value) in the operand's iteration order */
#ifndef MOP
#define MOP 1
#endif
static OBJ(Ref, SRC); static var src; static struct { struct Header h; struct Elem v; } OK_[MOP + 1], OV_[MOP + 1];
static var op_init(var self) { return MOP ? (var)&OK_[0].v : Terminal; }
static var op_next(var self, var curr) { size_t i = ((char*)curr - (char*)&OK_[0].v) / sizeof(OK_[0]); return i + 1 < MOP ? (var)&OK_[i + 1].v : Terminal; }
static struct Iter cv_op_iter = { op_init, op_next, NULL, NULL, NULL };
size_t len(var self) { return MOP; }
var get(var self, var key) { size_t i = ((char*)key - (char*)&OK_[0].v) / sizeof(OK_[0]); CV_LIMIT(self == src && i < MOP, "harness: get(operand, key) with a key of the operand"); return &OV_[i].v; }
var instance(var self, var cls) { return &cv_op_iter; }
var method_at_offset(var self, var cls, size_t offset, const char* m) { return &cv_op_iter; } bool implements_method_at_offset(var self, var cls, size_t offset) { return true; }
var key_type(var self) { return ELEM; } var val_type(var self) { return ELEM; }

static struct { struct Header h; struct Tree v; } TO; static struct Tree* t;
static int64_t in_val[SH_N + 1]; static int64_t in_v; static OBJ(Elem, KX); static OBJ(Elem, VX); static var kx, vx;
static int present_before(int64_t k) { for (int i = 0; i < SH_N; i++) if (sh_key[i] == k) return 1; return 0; }

/* ---- red-black well-formedness over the model (recursion depth bounded by the height) ---- */
static int cv_count; static int cv_ok;
static int bh(var node, var parent, int64_t lo, int64_t hi, int has_lo, int has_hi, int depth) {
  if (node == NULL) return 1;
  if (depth > 2 * SH_N + 2 || !valid_node(node)) { cv_ok = 0; return 0; }
  struct TNode* n = node; int i = idx(node);
  cv_count++;
  if (cv_par[i] != parent) cv_ok = 0;                                   /* parent link of every child points back */
  if ((has_lo && !(n->k.val > lo)) || (has_hi && !(n->k.val < hi))) cv_ok = 0;      /* search-tree order */
  if (cv_red[i] && (cv_get_color(t, n->left) || cv_get_color(t, n->right))) cv_ok = 0;   /* no red node with a red child */
  if (!(n->kh.type == ELEM && n->vh.type == ELEM && n->kh.alloc == (var)AllocData && n->vh.alloc == (var)AllocData && n->k.tok == 1 && n->v.tok == 1)) cv_ok = 0;
  /* Cello's orientation: larger keys to the left */
  int l = bh(n->left, node, n->k.val, hi, 1, has_hi, depth + 1);
  int r = bh(n->right, node, lo, n->k.val, has_lo, 1, depth + 1);
  if (l != r) cv_ok = 0;                                                /* equal black height on all paths */
  return l + (cv_red[i] ? 0 : 1);
}
static int wf_rb(size_t n) {
  cv_count = 0; cv_ok = 1;
  if (t->root != NULL && cv_red[idx(t->root)]) cv_ok = 0;                /* root black */
  bh(t->root, NULL, 0, 0, 0, 0, 0);
  return cv_ok && (size_t)cv_count == n && t->nitems == n;
}
static var find(int64_t k) { var node = t->root; for (int d = 0; d < 2 * SH_N + 4 && node != NULL; d++) { struct TNode* n = node; if (n->k.val == k) return node; node = n->k.val < k ? n->left : n->right; } return NULL; }

static int expect_throw; static var expect_exc;
static int unchanged(void) {
  if (t->nitems != SH_N || (SH_N > 0 && t->root != (var)&POOL[SH_ROOT]) || (SH_N == 0 && t->root != NULL)) return 0;
  for (int i = 0; i < SH_N; i++) {
    struct TNode* n = &POOL[i];
    if (n->left != (sh_left[i] < 0 ? NULL : (var)&POOL[sh_left[i]]) || n->right != (sh_right[i] < 0 ? NULL : (var)&POOL[sh_right[i]])) return 0;
    if (cv_par[i] != (sh_parent[i] < 0 ? NULL : (var)&POOL[sh_parent[i]]) || cv_red[i] != sh_red[i] || cv_dead[i]) return 0;
    if (n->k.val != sh_key[i] || n->v.val != in_val[i] || n->k.tok != 1 || n->v.tok != 1) return 0;
  }
  return 1;
}
void cv_on_throw(var obj) {
  if (obj == OutOfMemoryError) return;
  ASSERT(expect_throw, "[C03][C12] no exception on an operation the map can honour");
  ASSERT(!expect_throw || obj == expect_exc, "[C03][C12] the documented exception kind is raised (KeyError for an absent key)");
  ASSERT(unchanged(), "[C12] a failed operation leaves the Tree exactly as it was");
  ASSERT(cv_retired == 0 && cv_issued == 2 * SH_N && cv_frees == 0, "[C05][C12] a failed operation neither constructs, finalises nor frees");
}
static void build(void) {
  t = (struct Tree*)header_init(&TO.h, Tree, AllocHeap);
  { struct Tree any_state; *t = any_state; }      /* fields the invariant below does not pin down are arbitrary */
  t->ktype = ELEM; t->vtype = ELEM; t->ksize = sizeof(struct Elem); t->vsize = sizeof(struct Elem); t->nitems = SH_N;
  t->root = SH_N ? (var)&POOL[SH_ROOT] : NULL;
  for (int i = 0; i < SH_N; i++) {
    struct TNode* n = &POOL[i]; cv_used[i] = 1;
    n->left = sh_left[i] < 0 ? NULL : (var)&POOL[sh_left[i]]; n->right = sh_right[i] < 0 ? NULL : (var)&POOL[sh_right[i]];
    cv_par[i] = sh_parent[i] < 0 ? NULL : (var)&POOL[sh_parent[i]]; cv_red[i] = sh_red[i];
    header_init(&n->kh, ELEM, AllocData); header_init(&n->vh, ELEM, AllocData);
    in_val[i] = nondet_long(); n->k.val = sh_key[i]; n->v.val = in_val[i]; n->k.tok = cv_new_token(); n->v.tok = cv_new_token();
  }
  in_v = nondet_long();
  kx = header_init(&KX.h, ELEM, AllocStack); EV(kx) = OPKEY; ET(kx) = 0;
  vx = header_init(&VX.h, ELEM, AllocStack); EV(vx) = in_v; ET(vx) = 0;
  CV_LIMIT(wf_rb(SH_N), "harness: enumerator validated: the emitted shape is a well-formed red-black tree");
}
static void check_view(int64_t changed_key, int present_after, int64_t new_val) {
  for (int i = 0; i < SH_N; i++) {
    if (sh_key[i] == changed_key) continue;
    var n = find(sh_key[i]);
    ASSERT(n != NULL && ((struct TNode*)n)->v.val == in_val[i], "[C03] every other binding is unchanged");
  }
  var n = find(changed_key);
  ASSERT((n != NULL) == present_after, "[C03] the operand key is bound afterwards exactly as the operation says");
  ASSERT(n == NULL || !present_after || ((struct TNode*)n)->v.val == new_val, "[C03] the operand key is bound to the right value");
}
void h_set(void) {
  build();
  int was = present_before(OPKEY);
  Tree_Set(t, kx, vx);
  ASSERT(wf_rb(SH_N + !was), "[C03] after set the structure is a valid red-black tree (order, parent links, colours, black height) and len is right");
  check_view(OPKEY, 1, in_v);
  ASSERT(cv_issued == 2 * SH_N + (was ? 0 : 2) && cv_retired == 0 && cv_frees == 0, "[C05] set constructs a key and a value only for a new binding and finalises nothing");
  COVER(1, "set returns");
}
void h_rem(void) {
  build();
  int was = present_before(OPKEY);
  expect_throw = !was; expect_exc = KeyError;
  COVER(1, "rem called");
  Tree_Rem(t, kx);
  ASSERT(was, "[C03][C12] rem of an absent key raises KeyError");
  ASSERT(wf_rb(SH_N - 1), "[C03] after rem the structure is a valid red-black tree and len is right");
  check_view(OPKEY, 0, 0);
  ASSERT(cv_retired == 2 && cv_issued == 2 * SH_N, "[C05] rem finalises exactly the removed key and value (the predecessor copy moves bytes, it constructs nothing)");
  ASSERT(cv_frees == 1, "[C05] rem frees exactly one entry, the one it unlinked");
}
void h_get(void) {
  build();
  int was = present_before(OPKEY);
  ASSERT(Tree_Mem(t, kx) == (was != 0), "[C03] mem agrees with the ordered map");
  expect_throw = !was; expect_exc = KeyError;
  COVER(1, "get called");
  var r = Tree_Get(t, kx);
  ASSERT(was, "[C03][C12] get of an absent key raises KeyError");
  int i = 0; for (int k = 0; k < SH_N; k++) if (sh_key[k] == OPKEY) i = k;
  ASSERT(r == (var)&POOL[i].v && EV(r) == in_val[i] && cv_is_elem(r) && HDR(r)->alloc == (var)AllocData, "[C03][C19] get returns the bound value, an object of the value type");
  ASSERT(unchanged() && Tree_Len(t) == SH_N, "lookups change nothing; len is the number of bindings");
}
void h_iter(void) {
  build();
  var c = Tree_Iter_Init(t); int64_t prev = 0; int n = 0; var seq[SH_N + 1];
  for (int s = 0; s < SH_N && c != Terminal; s++) {
    ASSERT(cv_is_elem(c) && HDR(c)->alloc == (var)AllocData, "[C19] iteration yields key objects of the key type");
    ASSERT(n == 0 || EV(c) < prev, "[C03][C11] forward iteration visits the keys in strictly monotone order");
    prev = EV(c); seq[n++] = c; c = Tree_Iter_Next(t, c);
  }
  ASSERT(c == Terminal && n == SH_N, "[C03][C11] forward iteration ends with Terminal after exactly len keys");
  c = Tree_Iter_Last(t);
  for (int s = SH_N - 1; s >= 0 && c != Terminal; s--) { ASSERT(c == seq[s], "[C03][C11] backward iteration is the exact reverse of forward iteration"); n--; c = Tree_Iter_Prev(t, c); }
  ASSERT(c == Terminal && n == 0, "[C03][C11] backward iteration ends with Terminal after exactly len keys");
  COVER(1, "iteration done");
}
void h_clear(void) {
  build();
  Tree_Resize(t, 0);
  ASSERT(t->root == NULL && t->nitems == 0, "[C03] resize(0) empties the Tree");
  ASSERT(cv_retired == 2 * SH_N && cv_frees == SH_N, "[C05][C06] clearing finalises every key and value once and frees every entry once");
  Tree_Set(t, kx, vx);
  ASSERT(wf_rb(1), "[C03] a drained Tree can be refilled");
  COVER(1, "clear and refill");
}

/* C01: the container's Mark instance hands every element to the collector's callback, once */
static int cv_mk_calls, cv_mk_hits; static var cv_mk_watch, cv_mk_gc;
static void cv_mark_cb(var g, void* p) { cv_mk_calls++; if (g != cv_mk_gc) cv_mk_calls += 100; if (p == cv_mk_watch) cv_mk_hits++; }
void h_mark(void) {
  build();
  size_t gh_i = nondet_ulong(); __CPROVER_assume(SH_N == 0 || gh_i < SH_N); bool watch_val = nondet_bool();
  cv_mk_gc = &KX; cv_mk_watch = SH_N ? (watch_val ? (var)&POOL[gh_i].v : (var)&POOL[gh_i].k) : NULL;
  Tree_Mark(t, cv_mk_gc, cv_mark_cb);
  ASSERT(cv_mk_calls == 2 * SH_N && (SH_N == 0 || cv_mk_hits == 1), "[C01] Tree_Mark passes every key and every value to the callback exactly once");
  COVER(1, "mark done");
}
/* C14: show of a map writes "key:value" for every binding exactly once, in iteration order, separated by ", ";
 * each piece goes to the sink at the position the previous one returned (print_to is cut by a recording contract) */
static int cv_sh_calls, cv_sh_pairs, cv_sh_seps, cv_sh_bad, cv_sh_pos; static var cv_sh_out; static var cv_sh_k[8], cv_sh_v[8];
static int cv_sh_streq(const char* a, const char* b) { size_t i = 0; while (a[i] != 0 && a[i] == b[i]) i++; return a[i] == b[i]; }
int print_to_with(var out, int pos, const char* fmt, var args) {
  if (out != cv_sh_out || pos != cv_sh_pos) cv_sh_bad++;
  cv_sh_calls++;
  if (cv_sh_streq(fmt, "%$:%$")) { if (cv_sh_pairs < 8) { cv_sh_k[cv_sh_pairs] = ((struct Tuple*)args)->items[0]; cv_sh_v[cv_sh_pairs] = ((struct Tuple*)args)->items[1]; } if (cv_sh_seps != cv_sh_pairs) cv_sh_bad++; cv_sh_pairs++; }
  else if (cv_sh_streq(fmt, ", ")) { cv_sh_seps++; if (cv_sh_seps != cv_sh_pairs) cv_sh_bad++; }
  cv_sh_pos += 1 + (cv_sh_calls % 3);
  return cv_sh_pos;
}
void h_show(void) {
  build(); cv_sh_out = &KX; cv_sh_pos = nondet_int(); __CPROVER_assume(cv_sh_pos >= 0 && cv_sh_pos < 1000);
  int r = Tree_Show(t, cv_sh_out, cv_sh_pos);
  ASSERT(cv_sh_pairs == SH_N && cv_sh_seps == (SH_N ? SH_N - 1 : 0) && cv_sh_bad == 0, "[C14] show of a Tree writes every binding once as key:value, separated by commas, each piece at the position the previous one returned");
  var c = Tree_Iter_Init(t);
  for (int j = 0; j < SH_N; j++) { ASSERT(j < 8 && cv_sh_k[j] == c, "[C14] the bindings are shown in iteration order"); struct TNode* n = find(EV(c)); ASSERT(n != NULL && cv_sh_v[j] == (var)&n->v, "[C14] each key is shown with its own value"); c = Tree_Iter_Next(t, c); }
  ASSERT(r == cv_sh_pos && cv_sh_calls == cv_sh_pairs + cv_sh_seps + 2, "[C14] show returns the position after the closing brace");
  COVER(1, "show done");
}

/* C09/C10: Tree hash = XOR over keys and values; Tree cmp = lexicographic over (key, value) in iteration order, shorter first */
void h_hash_cmp(void) {
  build();
  src = MK(SRC, Ref, AllocStack);
  for (int i = 0; i < MOP; i++) { header_init(&OK_[i].h, ELEM, AllocData); header_init(&OV_[i].h, ELEM, AllocData); OK_[i].v.val = nondet_long(); OV_[i].v.val = nondet_long(); OK_[i].v.tok = 1; OV_[i].v.tok = 1; }
  uint64_t h = 0; for (int i = 0; i < SH_N; i++) h ^= cv_hash_of(sh_key[i]) ^ cv_hash_of(in_val[i]);
  ASSERT(Tree_Hash(t) == h, "[C10] the hash of a Tree is the XOR of its keys' and values' hashes (a function of the contents, whatever the shape)");
  /* the Tree's own iteration order: keys descending */
  int64_t ks[SH_N + 1], vs[SH_N + 1]; int n = 0;
  for (int64_t k = 2 * SH_N; k >= 2; k -= 2) for (int i = 0; i < SH_N; i++) if (sh_key[i] == k) { ks[n] = k; vs[n] = in_val[i]; n++; }
  int want = 0;
  for (int j = 0; j < SH_N || j < MOP; j++) {
    if (j >= SH_N) { want = -1; break; } if (j >= MOP) { want = 1; break; }
    if (ks[j] < OK_[j].v.val) { want = -1; break; } if (ks[j] > OK_[j].v.val) { want = 1; break; }
    if (vs[j] < OV_[j].v.val) { want = -1; break; } if (vs[j] > OV_[j].v.val) { want = 1; break; }
  }
  ASSERT(Tree_Cmp(t, src) == want, "[C09] cmp on Tree is the lexicographic order over (key, value) pairs, key then value, shorter first");
  COVER(SH_N != MOP || SH_N == 0 || want == 0, "equal maps");
}

/* Tree_Assign (copy of another map): the old entries are finalised and freed, then every binding of the operand is set once
 * (Tree_Set by its contract: C03.set on every shape) */
static int cv_ts_calls, cv_ts_bad;
void cv_tree_set_rec(var self, var key, var val) {
  if (!(self == (var)t && cv_ts_calls < MOP && key == (var)&OK_[cv_ts_calls].v && val == (var)&OV_[cv_ts_calls].v && (cv_ts_calls > 0 || (t->root == NULL && t->nitems == 0)))) cv_ts_bad++;
  cv_ts_calls++;
}
void h_assign(void) {
  build();
  src = MK(SRC, Ref, AllocStack);
  for (int i = 0; i < MOP; i++) { header_init(&OK_[i].h, ELEM, AllocData); header_init(&OV_[i].h, ELEM, AllocData); OK_[i].v.val = nondet_long(); OV_[i].v.val = nondet_long(); OK_[i].v.tok = 1; OV_[i].v.tok = 1; }
  Tree_Assign(t, src);
  ASSERT(cv_retired == 2 * SH_N && cv_frees == SH_N, "[C05] assign finalises every key and value the tree held and frees every entry, once each");
  ASSERT(cv_ts_calls == MOP && cv_ts_bad == 0 && t->ktype == ELEM && t->vtype == ELEM, "[C03][C05] assign sets every binding of the operand exactly once on the emptied tree (deep copy through set)");
  COVER(1, "assign done");
}
