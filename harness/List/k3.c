/* C04/C05/C11/C12/C19, K3: one real List operation on an arbitrary well-formed List (one doubly linked chain of N nodes,
 * N enumerated by the driver) with symbolic element values, over the element model. */
#include "src/List.c"
#include "contracts/elem.h"

#ifndef N
#define N 2
#endif
#ifndef IDX
#define IDX 0
#endif
#ifndef M
#define M 2
#endif
#define NODE_BYTES (2 * sizeof(var) + sizeof(struct Header) + sizeof(struct Elem))

static struct { struct Header h; struct List v; } LO; static struct List* l;
static int64_t in_v[N + 1]; static int64_t in_x; static int64_t old_tok[N + 1]; static var old_node[N + 1];
static OBJ(Elem, X); static var x;

static struct { struct Header h; struct Elem v; } W[M + 1]; static int64_t in_w[M + 1]; static OBJ(Ref, SRC); static var src;
static var src_iter_init(var self) { return M == 0 ? Terminal : (var)&W[0].v; }
static var src_iter_next(var self, var curr) { size_t i = ((char*)curr - (char*)&W[0].v) / sizeof(W[0]); return i + 1 < M ? (var)&W[i + 1].v : Terminal; }
static var src_iter_type(var self) { return ELEM; }
static struct Iter cv_src_iter = { src_iter_init, src_iter_next, NULL, NULL, src_iter_type };
size_t len(var self) { CV_LIMIT(self == src, "harness: len of the operand iterable"); return M; }
var get(var self, var key) { CV_LIMIT(self == src, "harness: get of the operand iterable"); int64_t i = c_int(key); __CPROVER_assert(i >= 0 && i < M, "[C04] the operand of concat / assign is read only inside its length"); return &W[i].v; }
var instance(var self, var cls) { CV_LIMIT(self == src && cls == Iter, "harness: instance(operand, Iter)"); return &cv_src_iter; }
var method_at_offset(var self, var cls, size_t offset, const char* m) { CV_LIMIT(self == src && cls == Iter, "harness: method(operand, Iter, ..)"); return &cv_src_iter; }
bool implements_method_at_offset(var self, var cls, size_t offset) { return self == src; }

#define NEXT(p) (*(var*)((char*)(p) - sizeof(struct Header) - 1 * sizeof(var)))
#define PREV(p) (*(var*)((char*)(p) - sizeof(struct Header) - 2 * sizeof(var)))
static var node_at(size_t i) { var p = l->head; for (size_t k = 0; k < i; k++) p = NEXT(p); return p; }

static int expect_throw; static var expect_exc;
static int state_unchanged(void) {
  if (l->type != ELEM || l->tsize != sizeof(struct Elem) || l->nitems != N) return 0;
  if (N == 0) return l->head == NULL && l->tail == NULL;
  var p = l->head;
  for (int i = 0; i < N; i++) {
    if (p != old_node[i] || EV(p) != in_v[i] || ET(p) != old_tok[i] || !cv_live[old_tok[i]]) return 0;
    if (PREV(p) != (i == 0 ? NULL : old_node[i - 1]) || NEXT(p) != (i == N - 1 ? NULL : old_node[i + 1])) return 0;
    p = NEXT(p);
  }
  return l->tail == old_node[N - 1];
}
void cv_on_throw(var obj) {
  if (obj == OutOfMemoryError) return;
  ASSERT(expect_throw, "[C04][C12] no exception on an in-range operation");
  ASSERT(!expect_throw || obj == expect_exc, "[C12] the documented exception kind is raised");
  ASSERT(state_unchanged(), "[C12] a failed operation leaves the List exactly as it was (length, elements, order, links)");
  ASSERT(cv_retired == 0, "[C05][C12] a failed operation finalises nothing");
  ASSERT(cv_live_count() == N, "[C05][C12] a failed operation leaves no constructed element outside the List (live elements == length)");
}
static void arbitrary_list(void) {
  l = (struct List*)header_init(&LO.h, List, AllocHeap);
  { struct List any_state; *l = any_state; }      /* fields the invariant below does not pin down are arbitrary */
  l->type = ELEM; l->tsize = sizeof(struct Elem); l->nitems = N; l->head = NULL; l->tail = NULL;
  var prev = NULL;
  for (int i = 0; i < N; i++) {
    char* blk = calloc(1, NODE_BYTES); __CPROVER_assume(blk != NULL);
    var p = header_init(blk + 2 * sizeof(var), ELEM, AllocData);
    in_v[i] = nondet_long(); cv_make_elem(p, in_v[i]); old_tok[i] = ET(p); old_node[i] = p;
    PREV(p) = prev; NEXT(p) = NULL;
    if (prev) NEXT(prev) = p; else l->head = p;
    prev = p;
  }
  l->tail = prev;
  in_x = nondet_long(); x = header_init(&X.h, ELEM, AllocStack); EV(x) = in_x; ET(x) = 0;
  for (int i = 0; i < M; i++) { header_init(&W[i].h, ELEM, AllocData); in_w[i] = nondet_long(); W[i].v.val = in_w[i]; W[i].v.tok = 0; }
  src = MK(SRC, Ref, AllocStack);
}
/* representation invariant: head/tail/prev/next form one doubly linked chain of nitems nodes; ledger */
static void check_wf(size_t n) {
  ASSERT(l->nitems == n, "[C04] len is the length of the abstract sequence");
  ASSERT((n == 0) == (l->head == NULL) && (n == 0) == (l->tail == NULL), "head and tail are NULL exactly when the List is empty");
  var p = l->head; var prev = NULL;
  for (size_t i = 0; i < n; i++) {
    ASSERT(p != NULL && __CPROVER_r_ok((char*)p - sizeof(struct Header) - 2 * sizeof(var), NODE_BYTES), "every node of the chain is a live allocation");
    ASSERT(PREV(p) == prev, "prev links mirror next links");
    ASSERT(cv_is_elem(p) && ALLOC_IS(p, AllocData), "[C19] every element carries (element type, Data) in its header");
    ASSERT(ET(p) > 0 && ET(p) < CV_NTOK && cv_live[ET(p)], "[C05] every contained element is live (never finalised while contained)");
    prev = p; p = NEXT(p);
  }
  ASSERT(p == NULL && l->tail == prev, "the chain ends after nitems nodes, at tail");
  ASSERT((size_t)cv_live_count() == n, "[C05] the number of live elements equals the length (nothing dropped, nothing leaked)");
}
#define VAL(i) EV(node_at(i))
#define TOK(i) ET(node_at(i))

void h_push(void) {
  arbitrary_list();
  List_Push(l, x);
  check_wf(N + 1);
  for (int j = 0; j < N; j++) ASSERT(node_at(j) == old_node[j] && VAL(j) == in_v[j] && TOK(j) == old_tok[j], "[C04] push keeps the existing elements in order");
  ASSERT(VAL(N) == in_x, "[C04] push appends the new element at the end");
  ASSERT(cv_issued == N + 1 && cv_retired == 0, "[C05] push constructs exactly one element and finalises none");
  COVER(1, "push returns");
}
void h_pop(void) {
  arbitrary_list();
  expect_throw = (N == 0); expect_exc = IndexOutOfBoundsError;
  COVER(1, "pop called");
  List_Pop(l);
  ASSERT(N > 0, "[C12] pop from an empty List raises IndexOutOfBoundsError");
  check_wf(N - 1);
  for (int j = 0; j + 1 < N; j++) ASSERT(node_at(j) == old_node[j] && VAL(j) == in_v[j], "[C04] pop keeps the remaining elements in order");
  ASSERT(cv_retired == 1 && cv_issued == N && !cv_live[old_tok[N > 0 ? N - 1 : 0]], "[C05] pop finalises exactly the removed element, once");
}
void h_push_at(void) {
  arbitrary_list();
  /* List: push_at(i) inserts before position i for 0 <= i < len (and i == 0 on an empty List); negative i counts from the end */
  int in_range = (IDX == 0) || (IDX > 0 && IDX < N) || (IDX < 0 && IDX >= -N);
  int p = IDX < 0 ? N + IDX : IDX;
  expect_throw = !in_range; expect_exc = IndexOutOfBoundsError;
  COVER(1, "push_at called");
  List_Push_At(l, x, $I(IDX));
  ASSERT(in_range, "[C12] push_at with an out-of-range index raises IndexOutOfBoundsError");
  check_wf(N + 1);
  ASSERT(VAL(p) == in_x, "[C04] push_at inserts the new element at the requested position");
  for (int j = 0; j < N; j++) ASSERT(node_at(j < p ? j : j + 1) == old_node[j] && VAL(j < p ? j : j + 1) == in_v[j], "[C04] push_at keeps all other elements in order");
  ASSERT(cv_issued == N + 1 && cv_retired == 0, "[C05] push_at constructs exactly one element and finalises none");
}
void h_pop_at(void) {
  arbitrary_list();
  int in_range = (IDX >= 0 && IDX < N) || (IDX < 0 && IDX >= -N);
  int p = IDX < 0 ? N + IDX : IDX;
  expect_throw = !in_range; expect_exc = IndexOutOfBoundsError;
  COVER(1, "pop_at called");
  List_Pop_At(l, $I(IDX));
  ASSERT(in_range, "[C12] pop_at with an out-of-range index raises IndexOutOfBoundsError");
  check_wf(N - 1);
  for (int j = 0; j < N; j++) if (j != p) ASSERT(node_at(j < p ? j : j - 1) == old_node[j] && VAL(j < p ? j : j - 1) == in_v[j], "[C04] pop_at removes exactly the addressed element and keeps the others in order");
  ASSERT(cv_retired == 1 && cv_issued == N && !cv_live[old_tok[in_range ? p : 0]], "[C05] pop_at finalises exactly the removed element, once");
}
void h_get_set(void) {
  arbitrary_list();
  int in_range = (IDX >= 0 && IDX < N) || (IDX < 0 && IDX >= -N);
  int p = IDX < 0 ? N + IDX : IDX;
  expect_throw = !in_range; expect_exc = IndexOutOfBoundsError;
  COVER(1, "get called");
  var e = List_Get(l, $I(IDX));
  ASSERT(in_range, "[C12] get with an out-of-range index raises IndexOutOfBoundsError");
  ASSERT(e == old_node[p] && EV(e) == in_v[p], "[C04] get(i) is the i-th element (negative i counts from the end)");
  ASSERT(cv_is_elem(e) && ALLOC_IS(e, AllocData) && type_of(e) == ELEM, "[C19] an object obtained from a List carries the element type");
  List_Set(l, $I(IDX), x);
  check_wf(N);
  for (int j = 0; j < N; j++) ASSERT(node_at(j) == old_node[j] && VAL(j) == (j == p ? in_x : in_v[j]) && TOK(j) == old_tok[j], "[C04] set replaces exactly the addressed element's value");
  ASSERT(cv_issued == N && cv_retired == 0, "[C05] set assigns in place: nothing constructed, nothing finalised");
}
void h_set_bad(void) {
  arbitrary_list();
  expect_throw = 1; expect_exc = IndexOutOfBoundsError;
  COVER(1, "set called");
  List_Set(l, $I(IDX), x);
  ASSERT((IDX >= 0 && IDX < N) || (IDX < 0 && IDX >= -N), "[C12] set with an out-of-range index raises IndexOutOfBoundsError");
}
void h_mem_rem(void) {
  arbitrary_list();
  int first = -1; for (int j = N - 1; j >= 0; j--) if (in_v[j] == in_x) first = j;
  ASSERT(List_Mem(l, x) == (first >= 0), "[C04] mem agrees with the abstract sequence");
  expect_throw = (first < 0); expect_exc = ValueError;
  COVER(first < 0, "rem of an absent element"); COVER(N < 2 || first > 0, "rem of an element that is not the first"); COVER(N < 2 || (first == 0 && in_v[1] == in_x), "rem with duplicates");
  List_Rem(l, x);
  ASSERT(first >= 0, "[C12] rem of an absent element raises ValueError");
  check_wf(N - 1);
  for (int j = 0; j < N; j++) if (j != first) ASSERT(node_at(j < first ? j : j - 1) == old_node[j] && VAL(j < first ? j : j - 1) == in_v[j], "[C04] rem deletes the first element equal to its argument and nothing else");
  ASSERT(cv_retired == 1 && !cv_live[old_tok[first >= 0 ? first : 0]], "[C05] rem finalises exactly the removed element, once");
}
void h_resize(void) {
  arbitrary_list();
  List_Resize(l, IDX);
  size_t n = IDX < N ? IDX : N;
  ASSERT(l->nitems == IDX, "[C04] resize sets the length");
  for (size_t j = 0; j < n; j++) ASSERT(node_at(j) == old_node[j] && VAL(j) == in_v[j] && TOK(j) == old_tok[j], "[C04] resize keeps the surviving prefix");
  ASSERT(cv_retired == N - (int)n && cv_issued == N, "[C05] resize finalises exactly the truncated elements, each once");
  for (size_t j = n; j < N; j++) ASSERT(!cv_live[old_tok[j]], "[C05] every truncated element was finalised");
  if (IDX <= N) check_wf(IDX);
  COVER(1, "resize returns");
}
void h_del(void) {
  arbitrary_list();
  List_Del(l);
  ASSERT(cv_retired == N && cv_live_count() == 0, "[C05][C06] deleting a List finalises every element exactly once");
  COVER(1, "del returns");
}
void h_concat(void) {
  arbitrary_list();
  List_Concat(l, src);
  check_wf(N + M);
  for (int j = 0; j < N; j++) ASSERT(node_at(j) == old_node[j] && VAL(j) == in_v[j], "[C04] concat keeps the existing elements in order");
  for (int j = 0; j < M; j++) ASSERT(VAL(N + j) == in_w[j], "[C04] concat appends the operand's elements in order");
  ASSERT(cv_issued == N + M && cv_retired == 0, "[C05] concat constructs one element per operand element");
  COVER(1, "concat returns");
}
void h_assign(void) {
  arbitrary_list();
  List_Assign(l, src);
  check_wf(M);
  for (int j = 0; j < M; j++) ASSERT(VAL(j) == in_w[j], "[C04][C10] assign makes the List equal to the operand, element by element");
  for (int j = 0; j < N; j++) ASSERT(!cv_live[old_tok[j]], "[C05] assign finalises every previous element");
  ASSERT(cv_retired == N && cv_issued == N + M, "[C05] assign finalises the old elements once each and constructs one per operand element");
  for (int j = 0; j < M; j++) ASSERT((char*)node_at(j) != (char*)&W[j].v && W[j].v.val == in_w[j], "[C05] assign is deep: no element of the operand is shared");
  ASSERT(l->type == ELEM, "[C19] the copy carries the operand's element type");
  COVER(1, "assign returns");
}
void h_iter(void) {
  arbitrary_list();
  var c = List_Iter_Init(l);
  for (int j = 0; j < N; j++) { ASSERT(c == old_node[j], "[C11] forward iteration yields the i-th element at step i"); c = List_Iter_Next(l, c); }
  ASSERT(c == Terminal, "[C11] forward iteration ends with Terminal after exactly len items");
  c = List_Iter_Last(l);
  for (int j = N - 1; j >= 0; j--) { ASSERT(c == old_node[j], "[C11] backward iteration yields the same items in reverse order"); c = List_Iter_Prev(l, c); }
  ASSERT(c == Terminal, "[C11] backward iteration ends with Terminal after exactly len items");
  ASSERT(List_Iter_Type(l) == ELEM && List_Len(l) == N, "[C11] iter_type and len agree with the contents");
  COVER(1, "iteration done");
}
void h_hash_cmp(void) {
  arbitrary_list();
  uint64_t h = 0; for (int j = 0; j < N; j++) h ^= cv_hash_of(in_v[j]);
  ASSERT(List_Hash(l) == h, "[C10] the hash of a List is the XOR of its elements' hashes (a function of the contents, equal to an Array's with equal elements)");
  int want = 0;
  for (int j = 0; j < N || j < M; j++) {
    if (j >= N) { want = -1; break; } if (j >= M) { want = 1; break; }
    if (in_v[j] < in_w[j]) { want = -1; break; } if (in_v[j] > in_w[j]) { want = 1; break; }
  }
  ASSERT(List_Cmp(l, src) == want, "[C09] cmp on List is the lexicographic order over the elements, shorter prefix first");
  COVER(want == 0 || N != M || N == 0, "equal sequences");
}

/* C01: the container's Mark instance hands every element to the collector's callback, once */
static int cv_mk_calls, cv_mk_hits; static var cv_mk_watch, cv_mk_gc;
static void cv_mark_cb(var g, void* p) { cv_mk_calls++; if (g != cv_mk_gc) cv_mk_calls += 100; if (p == cv_mk_watch) cv_mk_hits++; }
void h_mark(void) {
  arbitrary_list();
  size_t gh_j = nondet_ulong(); __CPROVER_assume(N == 0 || gh_j < N);
  cv_mk_gc = &X; cv_mk_watch = N ? old_node[gh_j] : NULL;
  List_Mark(l, cv_mk_gc, cv_mark_cb);
  ASSERT(cv_mk_calls == N && (N == 0 || cv_mk_hits == 1), "[C01] List_Mark passes every element to the callback exactly once");
  COVER(1, "mark done");
}

/* C14: show of a container writes each element's own show text exactly once, in iteration order, separated by ", ";
 * the position returned by each piece is the position of the next (print_to is cut by a recording contract) */
static int cv_sh_calls, cv_sh_elems, cv_sh_seps, cv_sh_bad, cv_sh_pos; static var cv_sh_out; static var cv_sh_seq[8];
static int cv_sh_streq(const char* a, const char* b) { size_t i = 0; while (a[i] != 0 && a[i] == b[i]) i++; return a[i] == b[i]; }
int print_to_with(var out, int pos, const char* fmt, var args) {
  if (out != cv_sh_out || pos != cv_sh_pos) cv_sh_bad++;
  cv_sh_calls++;
  if (cv_sh_streq(fmt, "%$")) { if (cv_sh_elems < 8) cv_sh_seq[cv_sh_elems] = ((struct Tuple*)args)->items[0]; if (cv_sh_seps != cv_sh_elems - (cv_sh_elems > 0 ? 0 : 0) && cv_sh_seps != cv_sh_elems) cv_sh_bad++; cv_sh_elems++; }
  else if (cv_sh_streq(fmt, ", ")) { cv_sh_seps++; if (cv_sh_seps != cv_sh_elems) cv_sh_bad++; }
  cv_sh_pos += 1 + (cv_sh_calls % 3);
  return cv_sh_pos;
}
void h_show(void) {
  arbitrary_list(); cv_sh_out = &X; cv_sh_pos = nondet_int(); __CPROVER_assume(cv_sh_pos >= 0 && cv_sh_pos < 1000); int p0 = cv_sh_pos;
  int r = List_Show(l, cv_sh_out, p0);
  ASSERT(cv_sh_elems == N && cv_sh_seps == (N ? N - 1 : 0) && cv_sh_bad == 0, "[C14] show of a List writes every element's show text once, in order, separated by commas, each piece at the position the previous one returned");
  for (int j = 0; j < N; j++) ASSERT(cv_sh_seq[j] == old_node[j], "[C14] the j-th text shown is the j-th element's");
  ASSERT(r == cv_sh_pos && cv_sh_calls == N + (N ? N - 1 : 0) + 2, "[C14] show returns the position after the closing bracket");
  COVER(1, "show done");
}
