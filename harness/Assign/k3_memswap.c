/* K3 stand-in for memswap on the real, unannotated text (no overlay): one concrete length LEN per obligation set, contents
 * symbolic; catches rewrites of the loop that the loop-contract overlay can no longer be attached to. */
#include "src/Assign.c"
#include "contracts/common.h"
#ifndef LEN
#define LEN 12
#endif
void cv_on_throw(var obj) {}
void h_memswap_len(void) {
  unsigned char a[LEN + 1], b[LEN + 1], a0[LEN + 1], b0[LEN + 1];
  for (int i = 0; i < LEN; i++) { a0[i] = a[i]; b0[i] = b[i]; }
  memswap(a, b, LEN);
  for (int i = 0; i < LEN; i++) ASSERT(a[i] == b0[i] && b[i] == a0[i], "[C10] swap exchanges the two values byte for byte");
  memswap(a, a, LEN);
  for (int i = 0; i < LEN; i++) ASSERT(a[i] == b0[i], "[C10] swapping a value with itself leaves it alone");
  COVER(1, "memswap done");
}
