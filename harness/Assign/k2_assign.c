/* C10/C04, K2: the real assign() dispatcher of src/Assign.c with an arbitrary receiver: a type with an Assign instance
 * (recording method), or a plain type of symbolic size handled by the byte copy. The contract every type's Assign method is
 * checked under (Array_Assign, List_Assign, Table_Assign, Tree_Assign, String_Assign, ...) requires the source to be a
 * different object from the target - they clear the target before reading the source - so the dispatcher must never hand
 * a method (or memcpy) the same object twice, and assign(x, x) must leave x as it is. */
#include "src/Assign.c"
#include "contracts/common.h"
static int cv_calls; static var cv_self, cv_obj;
static void rec_assign(var self, var obj) { cv_calls++; cv_self = self; cv_obj = obj; }
static struct Assign cv_inst = { rec_assign };
static int has_method, has_inst; static size_t in_size; static var T1, T2;
static struct { struct Header h; unsigned char v[16]; } A, B;
var header_init(var head, var type, int alloc) {      /* per its K1 contract (C19.header_init.k1), in every build configuration */
  struct Header* self = head; self->type = type;
#if CELLO_ALLOC_CHECK == 1
  self->alloc = (var)(intptr_t)alloc;
#endif
#if CELLO_MAGIC_CHECK == 1
  self->magic = (var)CELLO_MAGIC_NUM;
#endif
  return ((char*)self) + sizeof(struct Header);
}
var type_of(var self) { return HDR(self)->type; }
var instance(var self, var cls) { __CPROVER_assert(cls == Assign, "instance(self, Assign)"); return has_inst ? &cv_inst : NULL; }
size_t size(var type) { return in_size; }
static int expect_throw;
void cv_on_throw(var obj) { ASSERT(expect_throw && obj == TypeError, "[C12] assign raises TypeError exactly for a plain type given a value of another type (or of no size)"); }
void h_assign(void) {
  static int t1, t2; T1 = &t1; T2 = &t2;
  has_inst = nondet_bool(); has_method = nondet_bool(); cv_inst.assign = has_method ? rec_assign : NULL;
  in_size = nondet_size_t(); __CPROVER_assume(in_size <= 16);
  A.h.type = T1; B.h.type = nondet_bool() ? T1 : T2;
  unsigned char a0[16], b0[16]; for (int i = 0; i < 16; i++) { a0[i] = A.v[i]; b0[i] = B.v[i]; }
  int same = nondet_bool(); var self = A.v; var obj = same ? (var)A.v : (var)B.v;
  expect_throw = !(has_inst && has_method) && !same && (B.h.type != T1 || in_size == 0);
  var r = assign(self, obj);
  ASSERT(r == self, "assign returns its target");
  if (same) {
    ASSERT(cv_calls == 0, "[C04][C10] assign(x, x) never reaches the type's Assign method with the target as its own source (the methods clear the target before reading the source)");
    for (int i = 0; i < 16; i++) ASSERT(A.v[i] == a0[i], "[C04][C10] assign(x, x) leaves x as it is");
  } else if (has_inst && has_method) {
    ASSERT(cv_calls == 1 && cv_self == self && cv_obj == obj, "[C10] assign hands target and source to the type's Assign method, once");
  } else {
    ASSERT(cv_calls == 0 && B.h.type == T1 && in_size > 0, "[C10][C12] without an Assign method only a value of the same type is copied");
    for (size_t i = 0; i < 16; i++) ASSERT(A.v[i] == (i < in_size ? b0[i] : a0[i]), "[C10] the byte copy makes the target equal to the source over size(type) bytes and touches nothing beyond");
  }
  for (int i = 0; i < 16; i++) ASSERT(same || B.v[i] == b0[i], "[C10] assign leaves its source alone");
  COVER(same && has_inst && has_method, "self-assign of a type with an Assign method"); COVER(same && !has_inst, "self-assign of a plain type");
  COVER(!same && !has_inst && B.h.type == T1, "byte copy");
}
