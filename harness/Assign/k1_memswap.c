/* K1 + loop contract: memswap exchanges the two buffers byte for byte, for every length <= 4096.
 * Element-wise fact through a fixed-but-arbitrary ghost index gh_k (no quantifiers). */
#include "include/Cello.h"
#include "contracts/common.h"
size_t gh_k; char gh_a, gh_b;      /* ghost: index and the two bytes found there before the call */
#include OVERLAY_SRC

static void memswap(void* p0, void* p1, size_t s)
__CPROVER_requires(s <= 4096 && __CPROVER_is_fresh(p0, s) && __CPROVER_is_fresh(p1, s))
__CPROVER_requires(gh_k >= s || (((char*)p0)[gh_k] == gh_a && ((char*)p1)[gh_k] == gh_b))
__CPROVER_ensures(gh_k >= s || (((char*)p0)[gh_k] == gh_b && ((char*)p1)[gh_k] == gh_a))
__CPROVER_assigns(__CPROVER_object_upto(p0, s), __CPROVER_object_upto(p1, s))
;
void h_memswap(void) {
  size_t in_n = nondet_ulong();
  gh_k = nondet_ulong(); gh_a = nondet_char(); gh_b = nondet_char();
  void *p = nondet_ptr(), *q = nondet_ptr();
  memswap(p, q, in_n);
  COVER(in_n > 2 && gh_k == 1 && gh_a != gh_b, "memswap exchanges differing bytes");
}
