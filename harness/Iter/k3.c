/* C11, K3: Range arithmetic (one concrete step per obligation set, start/stop symbolic within +-2^32), Slice_Arg clamping
 * (all int64 arguments), and the views Slice / Zip / Filter / Map over abstract underlying iterables of NU (NU2) elements
 * whose Iter/Len/Get instances are ghost models (the cursor protocol of the real containers is C11's container part). */
#include "src/Iter.c"
#include "contracts/common.h"
#ifndef STEP
#define STEP 2
#endif
#ifndef RBITS
#define RBITS 32
#endif
#ifndef NU
#define NU 3
#endif
#ifndef NU2
#define NU2 2
#endif
var header_init(var head, var type, int alloc) { struct Header* self = head; self->type = type; self->alloc = (var)(intptr_t)alloc; self->magic = (var)CELLO_MAGIC_NUM; return ((char*)self) + sizeof(struct Header); }
var type_of(var self) { return HDR(self)->type; }
int64_t c_int(var x) { return ((struct Int*)x)->val; }
bool eq(var a, var b) { return a == b; }
static int expect_throw; static var expect_exc;
void cv_on_throw(var obj) { ASSERT(expect_throw && obj == expect_exc, "[C11][C12] only the documented exception, only on an out-of-range request"); }

/* ---- abstract underlying iterables ---- */
struct Und { int n; }; static struct { struct Header h; struct Und v; } UO1, UO2; static var und1, und2;
static struct { struct Header h; struct Int v; } U1[NU + 1], U2[NU2 + 1]; static int cv_bad_cursor;
static int und_n(var self) { return ((struct Und*)self)->n; }
static var und_elem(var self, int i) { return self == und1 ? (var)&U1[i].v : (var)&U2[i].v; }
static int und_pos(var self, var curr) { for (int i = 0; i < und_n(self); i++) if (und_elem(self, i) == curr) return i; return -1; }
static var und_init(var self) { return und_n(self) ? und_elem(self, 0) : Terminal; }
static var und_last(var self) { return und_n(self) ? und_elem(self, und_n(self) - 1) : Terminal; }
static var und_next(var self, var curr) { int p = und_pos(self, curr); if (p < 0) { cv_bad_cursor++; return Terminal; } return p + 1 < und_n(self) ? und_elem(self, p + 1) : Terminal; }
static var und_prev(var self, var curr) { int p = und_pos(self, curr); if (p < 0) { cv_bad_cursor++; return Terminal; } return p > 0 ? und_elem(self, p - 1) : Terminal; }
static var und_type(var self) { return Int; }
static struct Iter cv_und_iter = { und_init, und_next, und_last, und_prev, und_type };
var method_at_offset(var self, var cls, size_t offset, const char* m) { CV_LIMIT((self == und1 || self == und2) && cls == Iter, "harness: method lookup on an underlying iterable"); return &cv_und_iter; }
static size_t Zip_Len(var self);
size_t len(var self) {
  if (self == und1 || self == und2) return und_n(self);
  if (HDR(self)->type == Zip) return Zip_Len(self);      /* dispatch cut: a Zip's Len instance (C08) */
  struct Tuple* t = self; size_t i = 0; while (t->items[i] != Terminal) i++; return i;      /* a Tuple (Zip's iterables / values) */
}
var get(var self, var key) {
  int64_t i = c_int(key);
  if (self == und1 || self == und2) { __CPROVER_assert(i >= 0 && i < und_n(self), "[C11] a view never reads outside the underlying iterable"); return und_elem(self, (int)i); }
  return ((struct Tuple*)self)->items[i];
}
static bool in_accept[NU + 1]; static struct { struct Header h; struct Int v; } IMG[NU + 1]; static int cv_calls;
var call_with(var self, var arg) {          /* Filter: predicate; Map: image */
  cv_calls++; int p = und_pos(und1, arg); __CPROVER_assert(p >= 0, "[C11] the function is applied to elements of the underlying iterable only");
  if (HDR(self)->type == Ref) return in_accept[p] ? (var)1 : NULL;
  return &IMG[p].v;
}
static void build_und(void) {
  und1 = header_init(&UO1.h, Ref, AllocStack); und2 = header_init(&UO2.h, Ref, AllocStack); UO1.v.n = NU; UO2.v.n = NU2;
  for (int i = 0; i <= NU; i++) { header_init(&U1[i].h, Int, AllocData); U1[i].v.val = 100 + i; header_init(&IMG[i].h, Int, AllocData); IMG[i].v.val = 200 + i; in_accept[i] = nondet_bool(); }
  for (int i = 0; i <= NU2; i++) { header_init(&U2[i].h, Int, AllocData); U2[i].v.val = 300 + i; }
}

/* ---- Range ---- */
void h_range(void) {
  OBJ(Range, R); OBJ(Int, V); struct Range* r = MK(R, Range, AllocStack); r->value = MK(V, Int, AllocStack);
  int64_t in_start = nondet_long(), in_stop = nondet_long(), in_i = nondet_long();
  __CPROVER_assume(in_start >= -(1LL << RBITS) && in_start <= (1LL << RBITS) && in_stop >= -(1LL << RBITS) && in_stop <= (1LL << RBITS));
  r->start = in_start; r->stop = in_stop; r->step = STEP;
  int64_t s = STEP < 0 ? -(int64_t)STEP : STEP;
  int64_t n = (STEP == 0 || in_stop <= in_start) ? 0 : (in_stop - in_start + s - 1) / s;          /* spec: ceil((stop-start)/|step|), clipped at 0 */
#define E(i) (STEP > 0 ? in_start + (i) * s : in_stop - 1 - (i) * s)
  ASSERT((int64_t)Range_Len(r) == n, "[C11] len of a Range is ceil((stop - start) / |step|), 0 for an empty or inverted range");
  var c = Range_Iter_Init(r);
  ASSERT((c == Terminal) == (n == 0) && (n == 0 || (c == (var)r->value && V.v.val == E(0))), "[C11] iteration starts at get(0), or ends at once for an empty range");
  __CPROVER_assume(in_i >= 0 && in_i < n);
  V.v.val = E(in_i); c = Range_Iter_Next(r, r->value);
  ASSERT((c == Terminal) == (in_i + 1 == n) && (c == Terminal || V.v.val == E(in_i + 1)), "[C11] next from the i-th item yields the (i+1)-th, Terminal exactly after len items");
  V.v.val = E(in_i); c = Range_Iter_Prev(r, r->value);
  ASSERT((c == Terminal) == (in_i == 0) && (c == Terminal || V.v.val == E(in_i - 1)), "[C11] prev is the inverse of next");
  c = Range_Iter_Last(r);
  ASSERT(c != Terminal && V.v.val == E(n - 1), "[C11] backward iteration starts at get(len - 1)");
  OBJ(Int, K); struct Int* k = MK(K, Int, AllocStack); k->val = in_i;
  c = Range_Get(r, k);
  ASSERT(c == (var)r->value && V.v.val == E(in_i), "[C11] get(i) = start + i * step (from stop - 1 downwards for a negative step)");
  k->val = in_i - n; c = Range_Get(r, k);
  ASSERT(V.v.val == E(in_i), "[C11] a negative index counts from the end");
  COVER(s == 1 || ((in_stop - in_start) % s != 0 && n >= 2), "length not divisible by the step"); COVER(n >= 1 && in_i + 1 == n, "last item");
}
void h_range_empty(void) {
  OBJ(Range, R); OBJ(Int, V); struct Range* r = MK(R, Range, AllocStack); r->value = MK(V, Int, AllocStack);
  int64_t in_start = nondet_long(), in_stop = nondet_long();
  __CPROVER_assume(in_start >= -(1LL << RBITS) && in_start <= (1LL << RBITS) && in_stop >= -(1LL << RBITS) && in_stop <= (1LL << RBITS) && (in_stop <= in_start || STEP == 0));
  r->start = in_start; r->stop = in_stop; r->step = STEP;
  ASSERT(Range_Len(r) == 0, "[C11] an empty or inverted Range has len 0");
  ASSERT(Range_Iter_Init(r) == Terminal && Range_Iter_Last(r) == Terminal, "[C11] an empty Range ends at once in both directions");
  COVER(in_stop < in_start, "inverted range"); 
}
/* ---- Slice_Arg: start/stop arguments are clamped into [0, n]; negative counts from the end ---- */
void h_slice_arg(void) {
  OBJ(Int, A); struct Int* a = MK(A, Int, AllocStack); int64_t in_a = nondet_long(); size_t in_n = nondet_ulong(); int in_part = nondet_bool();
  __CPROVER_assume(in_n <= (1UL << 32) && in_a > -(1LL << 62) && in_a < (1LL << 62));
  a->val = in_a;
  int64_t r = Slice_Arg(in_part, in_n, a);
  int64_t want = in_a < 0 ? (in_a + (int64_t)in_n < 0 ? 0 : in_a + (int64_t)in_n) : (in_a > (int64_t)in_n ? (int64_t)in_n : in_a);
  ASSERT(r == want, "[C11] a Slice bound is clamped into [0, len]: negative counts from the end, beyond either end stops at that end");
  ASSERT(Slice_Arg(0, in_n, _) == 0 && Slice_Arg(1, in_n, _) == (int64_t)in_n && Slice_Arg(2, in_n, _) == 1, "[C11] omitted Slice arguments mean the whole iterable, step 1");
  COVER(in_a < -(int64_t)in_n, "negative beyond the start"); COVER(in_a > (int64_t)in_n, "beyond the end");
}
/* ---- Slice iteration: positions start, start+step, ... below stop ---- */
#ifndef SL_START
#define SL_START 0
#define SL_STOP 2
#define SL_STEP 1
#endif
void h_slice_iter(void) {
  build_und();
  OBJ(Range, R); OBJ(Int, V); OBJ(Slice, S); struct Range* r = MK(R, Range, AllocStack); r->value = MK(V, Int, AllocStack);
  struct Slice* s = MK(S, Slice, AllocStack); s->iter = und1; s->range = r; r->start = SL_START; r->stop = SL_STOP; r->step = SL_STEP;
  int want[NU + 1]; int n = 0;
  if (SL_STEP > 0) for (int p = SL_START; p < SL_STOP; p += SL_STEP) want[n++] = p;
  if (SL_STEP < 0) for (int p = SL_STOP - 1; p >= SL_START; p += SL_STEP) want[n++] = p;
  ASSERT(Slice_Len(s) == (size_t)n, "[C11] len of a Slice is the number of selected positions");
  var c = Slice_Iter_Init(s);
  for (int k = 0; k < n; k++) { ASSERT(c == und_elem(und1, want[k]), "[C11] a Slice yields exactly positions start, start+step, ... below stop, in order"); c = Slice_Iter_Next(s, c); }
  ASSERT(c == Terminal, "[C11] Slice iteration ends with Terminal after exactly len items");
  ASSERT(cv_bad_cursor == 0, "[C11] a Slice never steps the underlying iterable past its end");
  COVER(SL_START >= SL_STOP || n >= 1, "non-empty slice");
}
/* ---- Zip ---- */
void h_zip(void) {
  build_und();
  var z = zip(und1, und2);
  int n = NU < NU2 ? NU : NU2;
  ASSERT(Zip_Len(z) == (size_t)n, "[C11] len of a Zip is the length of the shortest input");
  var c = Zip_Iter_Init(z);
  for (int k = 0; k < n; k++) {
    ASSERT(c != Terminal && ((struct Tuple*)c)->items[0] == und_elem(und1, k) && ((struct Tuple*)c)->items[1] == und_elem(und2, k), "[C11] the k-th item of a Zip is the tuple of the k-th items of its inputs");
    c = Zip_Iter_Next(z, c);
  }
  ASSERT(c == Terminal, "[C11] Zip iteration ends with Terminal after exactly len items");
  c = Zip_Iter_Last(z);
  for (int k = n - 1; k >= 0; k--) {
    ASSERT(c != Terminal && ((struct Tuple*)c)->items[0] == und_elem(und1, k) && ((struct Tuple*)c)->items[1] == und_elem(und2, k), "[C11] backward iteration over a Zip yields the same tuples in reverse order");
    c = Zip_Iter_Prev(z, c);
  }
  ASSERT(c == Terminal, "[C11] backward Zip iteration ends with Terminal after exactly len items");
  COVER(1, "zip done");
}
/* ---- Filter ---- */
void h_filter(void) {
  build_und();
  OBJ(Ref, PRED); var pred = MK(PRED, Ref, AllocStack);
  OBJ(Filter, F); struct Filter* f = MK(F, Filter, AllocStack); f->iter = und1; f->func = pred;
  var c = Filter_Iter_Init(f); int seen = 0;
  for (int k = 0; k < NU; k++) if (in_accept[k]) { ASSERT(c == und_elem(und1, k), "[C11] a Filter yields exactly the accepted elements, in order"); c = Filter_Iter_Next(f, c); seen++; }
  ASSERT(c == Terminal, "[C11] Filter iteration ends with Terminal after the last accepted element");
  c = Filter_Iter_Last(f);
  for (int k = NU - 1; k >= 0; k--) if (in_accept[k]) { ASSERT(c == und_elem(und1, k), "[C11] backward iteration over a Filter yields the accepted elements in reverse order"); c = Filter_Iter_Prev(f, c); }
  ASSERT(c == Terminal && cv_bad_cursor == 0, "[C11] backward Filter iteration ends with Terminal and never leaves the underlying iterable");
  COVER(NU < 2 || (seen >= 1 && seen < NU), "some accepted, some rejected");
}
/* ---- Map ---- */
void h_map(void) {
  build_und();
  OBJ(Function, FN); var fn = MK(FN, Function, AllocStack);
  OBJ(Map, M); struct Map* m = MK(M, Map, AllocStack); m->iter = und1; m->func = fn; m->curr = NULL;
  ASSERT(Map_Len(m) == NU, "[C11] a Map has the length of its input");
  var c = Map_Iter_Init(m);
  for (int k = 0; k < NU; k++) { ASSERT(c == (var)&IMG[k].v, "[C11] a Map yields the images of the elements, in order"); c = Map_Iter_Next(m, c); }
  ASSERT(c == Terminal, "[C11] Map iteration ends with Terminal after exactly len items");
  c = Map_Iter_Last(m);
  for (int k = NU - 1; k >= 0; k--) { ASSERT(c == (var)&IMG[k].v, "[C11] backward iteration over a Map yields the images in reverse order"); c = Map_Iter_Prev(m, c); }
  ASSERT(c == Terminal && cv_bad_cursor == 0 && cv_calls == 2 * NU, "[C11] the function is applied once per item and step");
  COVER(1, "map done");
}
