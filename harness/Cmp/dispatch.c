/* K2: the real dispatcher cmp() + real Type.c lookup + real instance functions on concrete
 * built-in types, full-domain symbolic values. Discharges the element-model contract of cmp
 * for Int / Float and the c_int / c_float contracts used by the K1 proofs of Num.c. */
#include "src/Cmp.c"
#include "contracts/common.h"

int64_t nondet_int64(void);
int cv_expect_throw;
void cv_on_throw(var obj) {
  ASSERT(cv_expect_throw, "no exception on an in-contract cmp");
  ASSERT(!cv_expect_throw || obj == TypeError, "[C12] cmp of different plain types raises TypeError");
}

void h_cmp_int(void) {
  OBJ(Int, A); OBJ(Int, B);
  var a = MK(A, Int, AllocStack), b = MK(B, Int, AllocData);
  int64_t in_a = nondet_int64(), in_b = nondet_int64();
  A.v.val = in_a; B.v.val = in_b;
  ASSERT(c_int(a) == in_a, "c_int of an Int object is its value");
  int r = cmp(a, b);
  ASSERT(SIGN(r) == (in_a > in_b) - (in_a < in_b), "cmp on Int is the integer order");
  int r2 = cmp(b, a);
  ASSERT(SIGN(r2) == -SIGN(r), "cmp antisymmetric on Int");
  ASSERT(cmp(a, a) == 0, "cmp reflexive on Int");
  ASSERT(eq(a, b) == (in_a == in_b) && neq(a, b) == (in_a != in_b), "eq/neq on Int");
  ASSERT(lt(a, b) == (in_a < in_b) && gt(a, b) == (in_a > in_b), "lt/gt on Int");
  ASSERT(le(a, b) == (in_a <= in_b) && ge(a, b) == (in_a >= in_b), "le/ge on Int");
  COVER(r < 0, "cmp Int negative"); COVER(r > 0, "cmp Int positive"); COVER(r == 0, "cmp Int zero");
}

void h_cmp_float(void) {
  OBJ(Float, A); OBJ(Float, B);
  var a = MK(A, Float, AllocStack), b = MK(B, Float, AllocData);
  double in_a = nondet_double(), in_b = nondet_double();
  ASSUME(!__CPROVER_isnand(in_a) && !__CPROVER_isnand(in_b));
  A.v.val = in_a; B.v.val = in_b;
  ASSERT(c_float(a) == in_a, "c_float of a Float object is its value");
  int r = cmp(a, b);
  ASSERT(SIGN(r) == (in_a > in_b) - (in_a < in_b), "cmp on Float is the order of the reals");
  ASSERT(SIGN(cmp(b, a)) == -SIGN(r), "cmp antisymmetric on Float");
  ASSERT(cmp(a, a) == 0, "cmp reflexive on Float");
  ASSERT(eq(a, b) == (in_a == in_b) && lt(a, b) == (in_a < in_b) && ge(a, b) == (in_a >= in_b), "predicates on Float");
  COVER(r < 0, "cmp Float negative"); COVER(r == 0 && __CPROVER_signd(in_a) != __CPROVER_signd(in_b), "cmp Float signed zeros");
}

/* default branch: plain structs without their own Cmp are compared byte-wise over size(type) bytes */
struct Odd12 { int a, b, c; };          /* a plain user type whose size is not a multiple of the word size */
static var Odd12 = Cello(Odd12);
void h_cmp_default(void) {
  OBJ(Ref, A); OBJ(Ref, B);
  var a = MK(A, Ref, AllocStack), b = MK(B, Ref, AllocData);
  uint64_t in_a = nondet_ulong(), in_b = nondet_ulong();
  A.v.val = (var)in_a; B.v.val = (var)in_b;
  int r = cmp(a, b);
  int m = memcmp(&in_a, &in_b, sizeof(var));
  ASSERT(SIGN(r) == SIGN(m), "default cmp is byte-wise over size(type) bytes");
  ASSERT((r == 0) == (in_a == in_b), "default cmp is 0 only for equal values");
  ASSERT(SIGN(cmp(b, a)) == -SIGN(r), "default cmp antisymmetric");
  ASSERT(cv_throws == 0, "no exception on same-type default cmp");
  /* two values equal over their own 12 bytes, with different bytes right behind them */
  static struct { struct Header h; struct Odd12 v; unsigned char after[8]; } P, Q;
  var p = header_init(&P.h, Odd12, AllocStack), q = header_init(&Q.h, Odd12, AllocStack);
  P.v.a = Q.v.a = nondet_int(); P.v.b = Q.v.b = nondet_int(); P.v.c = Q.v.c = nondet_int();
  for (int i = 0; i < 8; i++) { P.after[i] = nondet_uchar(); Q.after[i] = nondet_uchar(); }
  ASSERT(cmp(p, q) == 0 && sizeof(struct Odd12) == 12, "[C09] default cmp looks at exactly size(type) bytes: equal values compare equal whatever lies behind them");
  COVER(r < 0, "default cmp negative"); COVER(r == 0, "default cmp zero");
}

void h_cmp_default_mismatch(void) {
  OBJ(Ref, A); OBJ(Box, B);
  var a = MK(A, Ref, AllocStack), b = MK(B, Box, AllocData);
  A.v.val = nondet_ptr(); B.v.val = nondet_ptr();
  cv_expect_throw = 1;
  COVER(1, "before mismatch cmp");
  cmp(a, b);
  ASSERT(0, "[C12] cmp of different plain types does not return normally");
}
