/* K1: the six predicates are exactly the predicates of cmp, for every int cmp may return */
#include "src/Cmp.c"
#include "contracts/Cmp.h"
int cv_cmp_ret;
#define H(f) void h_##f(void) { int in_c = nondet_int(); cv_cmp_ret = in_c; var a = nondet_ptr(), b = nondet_ptr(); \
  bool r = f(a, b); COVER(r, #f " true"); COVER(!r, #f " false"); }
H(eq) H(neq) H(gt) H(lt) H(ge) H(le)
