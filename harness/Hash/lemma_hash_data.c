/* K3 (bounded by length): hash_data is a function of the bytes alone - two buffers at different
 * addresses, in different allocation classes, with equal contents hash equally. One cbmc run per
 * concrete length LEN (the loop is then concretely bounded; unwinding assertions on). */
#include "src/Hash.c"
#include "contracts/common.h"
#ifndef LEN
#define LEN 9
#endif
void h_hash_data_lemma(void) {
  uint8_t in_buf[LEN + 1];
  struct { char pad[3]; uint8_t b[LEN + 1]; } other;   /* misaligned copy on the stack */
  uint8_t* heap = malloc(LEN + 1);
  ASSUME(heap != NULL);
  for (int i = 0; i < LEN; i++) { other.b[i] = in_buf[i]; heap[i] = in_buf[i]; }
  uint64_t h1 = hash_data(in_buf, LEN), h2 = hash_data(other.b, LEN), h3 = hash_data(heap, LEN);
  ASSERT(h1 == h2 && h1 == h3, "hash_data depends on the bytes alone (address, alignment, allocation class irrelevant)");
  COVER(h1 != 0, "hash_data lemma reached");
}
