/* K1 + loop contract: hash_data reads only data[0,size) and assigns nothing, for every size up to
 * 4096: it is a function of exactly those bytes, independent of address and allocation class.
 * The loop contract is injected into a scratch copy of src/Hash.c (overlay, DESIGN.md 2.1). */
#include OVERLAY_SRC
#include "contracts/common.h"

uint64_t hash_data(const void* data, size_t size)
__CPROVER_requires(size <= 4096 && __CPROVER_is_fresh(data, size))
__CPROVER_assigns()
;
void h_hash_data(void) {
  size_t in_n = nondet_ulong();
  const void* p = nondet_ptr();
  uint64_t h = hash_data(p, in_n);
  COVER(in_n >= 16, "hash_data over two words");
  COVER(in_n == 0, "hash_data empty");
}
