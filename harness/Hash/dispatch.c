/* K2: real hash()/eq()/assign() dispatch + real Type.c + real instance functions for the scalar types.
 * C10 lemma per type: eq(a,b) => hash(a) == hash(b); assign(y,x) gives eq(y,x) and equal hash;
 * hash depends on the value alone (objects in different allocation classes / addresses). */
#include "src/Hash.c"
#include "contracts/common.h"
int64_t nondet_int64(void);
void cv_on_throw(var obj) { ASSERT(0, "no exception on in-contract hash/eq/assign"); }

void h_hash_int(void) {
  OBJ(Int, A); OBJ(Int, B); OBJ(Int, C);
  var a = MK(A, Int, AllocStack), b = MK(B, Int, AllocData), c = MK(C, Int, AllocHeap);
  int64_t in_a = nondet_int64(), in_b = nondet_int64();
  A.v.val = in_a; B.v.val = in_b; C.v.val = nondet_int64();
  ASSERT(!eq(a, b) || hash(a) == hash(b), "Int: eq implies equal hash");
  ASSERT(in_a != in_b || hash(a) == hash(b), "Int: hash is a function of the value alone");
  assign(c, a);
  ASSERT(eq(c, a) && hash(c) == hash(a), "Int: assign yields an equal value with equal hash");
  ASSERT(A.v.val == in_a, "Int: assign leaves the source unchanged");
  COVER(eq(a, b), "Int equal pair"); COVER(!eq(a, b), "Int unequal pair");
}

void h_hash_float(void) {
  OBJ(Float, A); OBJ(Float, B); OBJ(Float, C);
  var a = MK(A, Float, AllocStack), b = MK(B, Float, AllocData), c = MK(C, Float, AllocHeap);
  double in_a = nondet_double(), in_b = nondet_double();
  ASSUME(!__CPROVER_isnand(in_a) && !__CPROVER_isnand(in_b));
  A.v.val = in_a; B.v.val = in_b; C.v.val = nondet_double();
  ASSERT(!eq(a, b) || hash(a) == hash(b), "Float: eq implies equal hash");
  assign(c, a);
  ASSERT(eq(c, a) && hash(c) == hash(a), "Float: assign yields an equal value with equal hash");
  COVER(eq(a, b) && __CPROVER_signd(in_a) != __CPROVER_signd(in_b), "Float equal pair of signed zeros");
  COVER(eq(a, b) && in_a != 0, "Float equal nonzero pair");
}

/* types without a Hash instance: hash is hash_data over exactly size(type) bytes, and the default eq
 * is memcmp over the same bytes */
uint64_t cv_hd_ret; const void* cv_hd_p; size_t cv_hd_n; int cv_hd_calls;
uint64_t cv_hash_data(const void* data, size_t size) { cv_hd_p = data; cv_hd_n = size; cv_hd_calls++; return cv_hd_ret; }

struct Odd12 { int a, b, c; };          /* a plain user type whose size is not a multiple of the word size */
static var Odd12 = Cello(Odd12);
void h_hash_default(void) {
  OBJ(Ref, A); OBJ(Box, B);
  var a = MK(A, Ref, AllocStack), b = MK(B, Box, AllocData);
  A.v.val = nondet_ptr(); B.v.val = nondet_ptr();
  cv_hd_ret = nondet_ulong();
  uint64_t h = hash(a);
  ASSERT(cv_hd_calls == 1 && cv_hd_p == a && cv_hd_n == sizeof(struct Ref) && h == cv_hd_ret, "default hash = hash_data over size(type) bytes of the object (Ref)");
  h = hash(b);
  ASSERT(cv_hd_calls == 2 && cv_hd_p == b && cv_hd_n == sizeof(struct Box) && h == cv_hd_ret, "default hash = hash_data over size(type) bytes of the object (Box)");
  static struct { struct Header h; struct Odd12 v; char after[8]; } O;
  var o = header_init(&O.h, Odd12, AllocStack);
  h = hash(o);
  ASSERT(cv_hd_calls == 3 && cv_hd_p == o && cv_hd_n == sizeof(struct Odd12) && sizeof(struct Odd12) == 12 && h == cv_hd_ret, "[C10] default hash = hash_data over exactly size(type) bytes of the object, also when the size is not a multiple of the word size (nothing after the object is read)");
  COVER(cv_hd_calls == 3, "default hash reached");
}
