/* C05/C06/C10, K2 (loop-free, full domain): Box and Ref of src/Pointer.c. A Box owns its pointee: deleting the Box deletes
 * the pointee exactly once (through del, i.e. the collector) and clears the field; Ref shares. */
#include "src/Pointer.c"
#include "contracts/common.h"
var header_init(var head, var type, int alloc) { struct Header* self = head; self->type = type;
#if CELLO_ALLOC_CHECK == 1
  self->alloc = (var)(intptr_t)alloc;
#endif
#if CELLO_MAGIC_CHECK == 1
  self->magic = (var)CELLO_MAGIC_NUM;
#endif
  return ((char*)self) + sizeof(struct Header); }
static struct Pointer cv_ref_ptr = { Ref_Ref, Ref_Deref }, cv_box_ptr = { Box_Ref, Box_Deref };
var instance(var self, var cls) { __CPROVER_assert(cls == Pointer, "instance(obj, Pointer)"); return HDR(self)->type == Ref ? &cv_ref_ptr : HDR(self)->type == Box ? &cv_box_ptr : NULL; }
var method_at_offset(var self, var cls, size_t off, const char* m) { return instance(self, cls); }
static int cv_dels; static var cv_del_arg;
void del(var self) { cv_dels++; cv_del_arg = self; }
var get(var self, var key) { return ((struct Tuple*)self)->items[((struct Int*)key)->val]; }
int print_to_with(var out, int pos, const char* fmt, var args) { return pos; }
void cv_on_throw(var obj) { ASSERT(0, "no exception from Box / Ref operations"); }

void h_box(void) {
  OBJ(Box, B); OBJ(Int, P); OBJ(Ref, R); OBJ(Box, B2);
  struct Box* b = MK(B, Box, AllocHeap); var p = MK(P, Int, AllocHeap); struct Ref* r = MK(R, Ref, AllocStack); struct Box* b2 = MK(B2, Box, AllocStack);
  bool in_null = nondet_bool(); int in_src = nondet_int(); __CPROVER_assume(in_src >= 0 && in_src <= 2);
  r->val = p; b2->val = p; b->val = NULL;
  var src = in_src == 0 ? p : in_src == 1 ? (var)r : (var)b2;
  Box_Assign(b, src);
  ASSERT(b->val == p, "[C05] assigning an object, a Ref or a Box to a Box makes it hold that object (a Ref / Box is dereferenced)");
  ASSERT(deref(b) == p && Box_Deref(b) == p, "deref gives the pointee");
  if (in_null) ref(b, NULL);
  Box_Del(b);
  ASSERT(cv_dels == (in_null ? 0 : 1) && (in_null || cv_del_arg == p), "[C05][C06] deleting a Box deletes the object it owns exactly once, and nothing when it owns nothing");
  ASSERT(b->val == NULL, "[C05][C06] a deleted Box no longer refers to its pointee (so a second finalisation cannot delete it again)");
  Box_Del(b);
  ASSERT(cv_dels == (in_null ? 0 : 1), "[C05][C06] finalising the Box again deletes nothing");
  COVER(!in_null && in_src == 1, "Box built from a Ref then deleted");
}
void h_ref(void) {
  OBJ(Ref, R); OBJ(Int, P); OBJ(Ref, R2);
  struct Ref* r = MK(R, Ref, AllocHeap); var p = MK(P, Int, AllocHeap); struct Ref* r2 = MK(R2, Ref, AllocStack);
  r2->val = p; r->val = NULL;
  bool in_via = nondet_bool();
  Ref_Assign(r, in_via ? (var)r2 : p);
  ASSERT(r->val == p && deref(r) == p, "[C10] assigning to a Ref makes it refer to the same object");
  ASSERT(cv_dels == 0, "[C05] a Ref never deletes what it refers to");
  COVER(in_via, "Ref from Ref");
}
