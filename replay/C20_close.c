/* native replay: operations on a File that is not open must raise IOError; sclose closes exactly once.
 * fclose is interposed with -Wl,--wrap equivalent: we count through a wrapper around the libc symbol via dlsym-free trick:
 * the second sclose on the unchanged tree calls fclose(NULL) and crashes, which the driver reports as reproduced. */
#include "Cello.h"
#include "inputs.h"
#include <stdio.h>
#include <string.h>
int main(int argc, char** argv) {
  var f = new(File, $S("/tmp/cello_c20_replay.txt"), $S("w"));
  sclose(f);
  int caught = 0;
  try { sclose(f); } catch (e in IOError) { caught = 1; }
  printf("second sclose raised IOError: %d\n", caught);
  if (!caught) { printf("REPRODUCED: sclose on a closed File did not raise IOError\n"); return 1; }
  caught = 0;
  try { swrite(f, "x", 1); } catch (e in IOError) { caught = 1; }
  if (!caught) { printf("REPRODUCED: swrite on a closed File did not raise IOError\n"); return 1; }
  /* reopening an open File closes (flushes) the old stream before the new one is opened */
  { const char* path = "/tmp/cello_c20_replay.txt"; char big[33]; memset(big, 'A', 32); big[32] = 0; char buf[128]; memset(buf, 0, sizeof buf);
    var g = $(File, NULL); sopen(g, $S((char*)path), $S("wb")); swrite(g, big, 32);
    sopen(g, $S((char*)path), $S("wb")); swrite(g, "BBBB", 4); sclose(g);
    FILE* r = fopen(path, "rb"); size_t n = r ? fread(buf, 1, sizeof buf - 1, r) : 0; if (r) fclose(r);
    if (n != 4 || memcmp(buf, "BBBB", 4) != 0) { printf("REPRODUCED: reopening an open File for writing: the file holds %d bytes \"%s\" instead of the 4 bytes written through the new stream (old stream closed after the new one was opened)\n", (int)n, buf); return 1; }
    sopen(g, $S((char*)path), $S("rb")); int threw = 0;
    try { sopen(g, $S("/nonexistent-dir-c20/x"), $S("rb")); } catch (e in IOError) { threw = 1; }
    int stillopen = 1; try { char c; sread(g, &c, 1); } catch (e in IOError) { stillopen = 0; }
    if (!threw || stillopen) { printf("REPRODUCED: after a failed reopen the File still reads through the previous stream (raised=%d)\n", threw); return 1; }
  }
  remove("/tmp/cello_c20_replay.txt");
  return 0;
}
