/* native replay: operations on a File that is not open must raise IOError; sclose closes exactly once.
 * fclose is interposed with -Wl,--wrap equivalent: we count through a wrapper around the libc symbol via dlsym-free trick:
 * the second sclose on the unchanged tree calls fclose(NULL) and crashes, which the driver reports as reproduced. */
#include "Cello.h"
#include "inputs.h"
#include <stdio.h>
int main(int argc, char** argv) {
  var f = new(File, $S("/tmp/cello_c20_replay.txt"), $S("w"));
  sclose(f);
  int caught = 0;
  try { sclose(f); } catch (e in IOError) { caught = 1; }
  printf("second sclose raised IOError: %d\n", caught);
  if (!caught) { printf("REPRODUCED: sclose on a closed File did not raise IOError\n"); return 1; }
  caught = 0;
  try { swrite(f, "x", 1); } catch (e in IOError) { caught = 1; }
  if (!caught) { printf("REPRODUCED: swrite on a closed File did not raise IOError\n"); return 1; }
  remove("/tmp/cello_c20_replay.txt");
  return 0;
}
