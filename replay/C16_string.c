/* native replay for the String obligations against the C library applied to a plain buffer */
#include "Cello.h"
#include "inputs.h"
#include <stdio.h>
#include <string.h>
static int bad = 0;
static void expect(var s, const char* want, const char* what) { if (strcmp(c_str(s), want) != 0 || len(s) != strlen(want)) { printf("REPRODUCED: %s: got \"%s\" (len %d), C library says \"%s\"\n", what, c_str(s), (int)len(s), want); bad = 1; } }
int main(int argc, char** argv) {
  var s = new(String, $S("abcdef")); rem(s, $S("cd")); expect(s, "abef", "rem(\"abcdef\", \"cd\")");
  assign(s, $S("aXbXc")); rem(s, $S("X")); expect(s, "abXc", "rem deletes the first occurrence only");
  assign(s, $S("aaa")); rem(s, $S("aa")); expect(s, "a", "rem with overlapping occurrences");
  assign(s, $S("abc")); rem(s, $S("abc")); expect(s, "", "rem of the whole string");
  assign(s, $S("abc")); int threw = 0; try { rem(s, $S("zz")); } catch (e in ValueError) { threw = 1; }
  if (!threw) { printf("REPRODUCED: rem of an absent substring did not raise\n"); bad = 1; } expect(s, "abc", "a failed rem leaves the String alone");
  assign(s, $S("ab")); concat(s, $S("cd")); expect(s, "abcd", "concat"); append(s, $S("")); expect(s, "abcd", "append empty");
  resize(s, 2); expect(s, "ab", "resize down"); resize(s, 5); expect(s, "ab", "resize up keeps the text");
  if (mem(s, $S("b")) != 1 || mem(s, $S("ba")) != 0 || mem(s, $S("")) != 1) { printf("REPRODUCED: mem disagrees with strstr\n"); bad = 1; }
  /* cmp is the C library's order: bytes as unsigned char */
  { const char* w[] = { "", "a", "ab", "b", "\x7f", "\x80", "caf\xc3\xa9", "cafz", "\xff", "z" };
    for (int i = 0; i < 10; i++) for (int j = 0; j < 10; j++) { int c = cmp($S((char*)w[i]), $S((char*)w[j])), d = strcmp(w[i], w[j]);
      if ((c < 0) != (d < 0) || (c > 0) != (d > 0)) { printf("REPRODUCED: cmp of two Strings (first bytes %d and %d) is %d, strcmp says %d\n", (unsigned char)w[i][0], (unsigned char)w[j][0], c, d); bad = 1; } } }
  /* operands overlapping the target's own buffer */
  { var t = new(String, $S("abcdef")); assign(t, $S(c_str(t) + 2)); expect(t, "cdef", "assign from a view of the target's own buffer"); }
  { var t = new(String, $S("abcdef")); assign(t, t); expect(t, "abcdef", "assign(s, s)"); }
  { var t = new(String, $S("abc")); concat(t, t); expect(t, "abcabc", "concat(s, s)"); }
  { var t = new(String, $S("abcdefghijklmnopqrstuvwxyz0123456789")); concat(t, $S(c_str(t) + 30)); expect(t, "abcdefghijklmnopqrstuvwxyz0123456789456789", "concat with a view of the target's own buffer"); }
  return bad;
}
