/* native replay: non-heap objects are never freed; type_of gives the true type */
#include "Cello.h"
#include "inputs.h"
#include <stdio.h>
int main(int argc, char** argv) {
  int bad = 0, caught;
  var s = $I(5);
  if (type_of(s) != Int) { printf("REPRODUCED: type_of($I) is not Int\n"); bad = 1; }
  caught = 0; try { del_raw(s); } catch (e in ResourceError) { caught = 1; }
  if (!caught || c_int(s) != 5) { printf("REPRODUCED: del_raw of a stack object did not raise ResourceError / changed it\n"); bad = 1; }
  caught = 0; try { dealloc(Int); } catch (e in ResourceError) { caught = 1; }
  if (!caught) { printf("REPRODUCED: dealloc of a static object did not raise ResourceError\n"); bad = 1; }
  var h = new_raw(Int, $I(7));
  if (type_of(h) != Int || c_int(h) != 7) { printf("REPRODUCED: new_raw object wrong\n"); bad = 1; }
  del_raw(h);
  return bad;
}
