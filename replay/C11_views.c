/* native replay for the view obligations: forward / backward iteration against len and get */
#include "Cello.h"
#include "inputs.h"
#include <stdio.h>
static int bad = 0;
static int count(var it) { int n = 0; foreach (x in it) { n++; if (n > 50) break; } return n; }
int main(int argc, char** argv) {
  var a = new(Array, Int, $I(0), $I(1), $I(2), $I(3), $I(4), $I(5));
  var s1 = slice(a, $I(0), $I(3));
  if (count(s1) != (int)len(s1)) { printf("REPRODUCED: slice(a,0,3) over 6 items yields %d items, len says %d\n", count(s1), (int)len(s1)); bad = 1; }
  var s2 = slice(a, $I(1), $I(5), $I(2));
  if (count(s2) != (int)len(s2)) { printf("REPRODUCED: slice(a,1,5,2) yields %d items (stopped at 51), len says %d\n", count(s2), (int)len(s2)); bad = 1; }
  var r = range($I(0), $I(6), $I(2));
  if (c_int(iter_last(r)) != 4 || len(range($I(0), $I(0), $I(2))) != 0 || len(range($I(5), $I(0))) != 0) { printf("REPRODUCED: Range len / last wrong\n"); bad = 1; }
  if (count(slice(a, $I(-100), _)) != 6) { printf("REPRODUCED: slice(a,-100,_) does not cover the whole iterable\n"); bad = 1; }
  var b = new(Array, Int, $I(10), $I(11));
  var z = zip(a, b); var last = iter_last(z);
  if (last isnt Terminal && (c_int(get(last, $I(0))) != 1 || c_int(get(last, $I(1))) != 11)) { printf("REPRODUCED: last item of zip(6 items, 2 items) is (%lld, %lld), forward iteration ends with (1, 11)\n", (long long)c_int(get(last, $I(0))), (long long)c_int(get(last, $I(1)))); bad = 1; }
  return bad;
}
