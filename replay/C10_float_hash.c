/* native replay: eq(a,b) must imply hash(a) == hash(b) on Float */
#include "Cello.h"
#include "inputs.h"
#include <stdio.h>
#ifndef IN_A
#define IN_A 0.0
#define IN_B (-0.0)
#endif
int main(int argc, char** argv) {
  double a = IN_A, b = IN_B;
  var x = $F(a), y = $F(b);
  printf("a=%a b=%a eq=%d hash(a)=%llx hash(b)=%llx\n", a, b, (int)eq(x, y), (unsigned long long)hash(x), (unsigned long long)hash(y));
  if (eq(x, y) && hash(x) != hash(y)) { printf("REPRODUCED: equal Floats hash differently\n"); return 1; }
  return 0;
}
