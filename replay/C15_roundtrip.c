/* native replay: show / look round trips */
#include "Cello.h"
#include "inputs.h"
#include <stdio.h>
#include <string.h>
int main(int argc, char** argv) {
  int bad = 0;
  const char* cases[] = { "plain", "a\nb", "say \"hi\"", "back\\slash", "\t", "", "a?b'c", "100%", "a%%b", "%d items", "%" };
  for (size_t i = 0; i < sizeof(cases) / sizeof(cases[0]); i++) {
    var txt = new(String, $S("")); int w = show_to($S((char*)cases[i]), txt, 0);
    var back = new(String, $S("junk")); int r = look_from(back, txt, 0);
    if (strcmp(c_str(back), cases[i]) != 0 || r != w) { printf("REPRODUCED: show/look of a %d-character string: wrote %d characters %s, read back %d characters giving a %d-character string\n", (int)strlen(cases[i]), w, c_str(txt), r, (int)len(back)); bad = 1; }
  }
  var f = new(Float, $F(0.0)); var t = new(String, $S("")); show_to($F(123456789.125), t, 0); look_from(f, t, 0);
  if (c_float(f) < 123456789.124 || c_float(f) > 123456789.126) { printf("REPRODUCED: Float 123456789.125 shown as %s is read back as %f\n", c_str(t), c_float(f)); bad = 1; }
  var n = new(Int, $I(0)); show_to($I(-9007199254740993LL), t, 0); look_from(n, t, 0);
  if (c_int(n) != -9007199254740993LL) { printf("REPRODUCED: Int round trip gives %lld\n", (long long)c_int(n)); bad = 1; }
  { const char* specs[] = { "%d", "%i", "%hd", "%hhd", "%ld", "%li", "%lld", "%jd" }; int64_t vals[] = { -5, -1, 0, 7, 100, -100 };
    for (size_t k = 0; k < sizeof(specs) / sizeof(specs[0]); k++) for (size_t j = 0; j < sizeof(vals) / sizeof(vals[0]); j++) {
      var txt = new(String, $S("")); var y = new(Int, $I(12345)); int w = print_to_with(txt, 0, specs[k], tuple($I(vals[j]))); int r = scan_from_with(txt, 0, specs[k], tuple(y));
      if (c_int(y) != vals[j] || r != w) { printf("REPRODUCED: print_to \"%s\" of %lld wrote \"%s\" (%d), scan_from with the same specification read %lld (%d)\n", specs[k], (long long)vals[j], c_str(txt), w, (long long)c_int(y), r); bad = 1; }
    }
    const char* uspecs[] = { "%u", "%x", "%o", "%lu", "%lx", "%hu" }; int64_t uvals[] = { 0, 7, 255, 65535 };
    for (size_t k = 0; k < sizeof(uspecs) / sizeof(uspecs[0]); k++) for (size_t j = 0; j < sizeof(uvals) / sizeof(uvals[0]); j++) {
      var txt = new(String, $S("")); var y = new(Int, $I(12345)); print_to_with(txt, 0, uspecs[k], tuple($I(uvals[j]))); scan_from_with(txt, 0, uspecs[k], tuple(y));
      if (c_int(y) != uvals[j]) { printf("REPRODUCED: print_to \"%s\" of %lld wrote \"%s\", scan_from read %lld\n", uspecs[k], (long long)uvals[j], c_str(txt), (long long)c_int(y)); bad = 1; }
    } }
  return bad;
}
