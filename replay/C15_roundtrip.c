/* native replay: show / look round trips */
#include "Cello.h"
#include "inputs.h"
#include <stdio.h>
#include <string.h>
int main(int argc, char** argv) {
  int bad = 0;
  const char* cases[] = { "plain", "a\nb", "say \"hi\"", "back\\slash", "\t", "", "a?b'c" };
  for (size_t i = 0; i < sizeof(cases) / sizeof(cases[0]); i++) {
    var txt = new(String, $S("")); int w = show_to($S((char*)cases[i]), txt, 0);
    var back = new(String, $S("junk")); int r = look_from(back, txt, 0);
    if (strcmp(c_str(back), cases[i]) != 0 || r != w) { printf("REPRODUCED: show/look of a %d-character string: wrote %d characters %s, read back %d characters giving a %d-character string\n", (int)strlen(cases[i]), w, c_str(txt), r, (int)len(back)); bad = 1; }
  }
  var f = new(Float, $F(0.0)); var t = new(String, $S("")); show_to($F(123456789.125), t, 0); look_from(f, t, 0);
  if (c_float(f) < 123456789.124 || c_float(f) > 123456789.126) { printf("REPRODUCED: Float 123456789.125 shown as %s is read back as %f\n", c_str(t), c_float(f)); bad = 1; }
  var n = new(Int, $I(0)); show_to($I(-9007199254740993LL), t, 0); look_from(n, t, 0);
  if (c_int(n) != -9007199254740993LL) { printf("REPRODUCED: Int round trip gives %lld\n", (long long)c_int(n)); bad = 1; }
  return bad;
}
