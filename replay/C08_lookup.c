/* native replay: every (type, class) lookup of the built-in objects against an independent scan of the raw record */
#include "Cello.h"
#include "inputs.h"
#include <stdio.h>
#include <string.h>
static var cv_scan(var type, const char* cls) {
  struct Type* t = (struct Type*)type + 2 + (CELLO_CACHE_NUM / 3);
  while (t->name) { if (strcmp(t->name, cls) == 0) return t->inst; t++; }
  return NULL;
}
int main(int argc, char** argv) {
  var types[] = { Int, Float, String, Ref, Box, Array, List, Table, Tree, Tuple, Range, Slice, Zip, Filter, Map, File, Mutex, Thread, Function, Exception, Type, KeyError, Terminal };
  var classes[] = { Doc, Help, Cast, Size, Alloc, New, Copy, Assign, Swap, Cmp, Hash, Len, Iter, Push, Concat, Get, Sort, Resize, C_Str, C_Int, C_Float, Stream, Pointer, Call, Format, Show, Current, Start, Lock, Mark, Int, Type };
  int bad = 0;
  for (int round = 0; round < 2; round++)
  for (size_t i = 0; i < sizeof(types)/sizeof(var); i++)
  for (size_t j = 0; j < sizeof(classes)/sizeof(var); j++) {
    var want = cv_scan(types[i], c_str(classes[j]));
    var got = type_instance(types[i], classes[j]);
    if (got != want || type_implements(types[i], classes[j]) != (want != NULL)) {
      printf("REPRODUCED: type_instance(%s, %s) = %p, declared %p\n", c_str(types[i]), c_str(classes[j]), got, want); bad = 1;
    }
  }
  { var other = new(Type, $S("Int"), $I(8)); int raised = 0;      /* a different type object that shares its name with Int */
    try { cast($I(1), other); } catch (e in ValueError) { raised = 1; }
    if (!raised) { printf("REPRODUCED: cast of an Int to a different type named \"Int\" was accepted\n"); bad = 1; }
    if (cast($I(1), Int) == NULL) bad = 1; }
  return bad;
}
