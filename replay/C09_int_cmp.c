/* native replay: cmp on two Int values must order as the integers do */
#include "Cello.h"
#include "inputs.h"
#include <stdio.h>
#ifndef IN_A
#define IN_A 4294967296LL
#define IN_B 0LL
#endif
#define SIGN(x) (((x) > 0) - ((x) < 0))
int main(int argc, char** argv) {
  int64_t a = IN_A, b = IN_B;
  int r = cmp($I(a), $I(b));
  int want = (a > b) - (a < b);
  printf("cmp($I(%lld), $I(%lld)) = %d, mathematical order sign = %d\n", (long long)a, (long long)b, r, want);
  if (SIGN(r) != want) { printf("REPRODUCED: cmp disagrees with the integer order\n"); return 1; }
  if (eq($I(a), $I(b)) != (a == b) || lt($I(a), $I(b)) != (a < b) || gt($I(a), $I(b)) != (a > b)) {
    printf("REPRODUCED: eq/lt/gt disagree with the integer order\n"); return 1; }
  return 0;
}
