/* native replay for the Array/List obligations: builds a container with the counterexample's length and values through
 * the public API of the library built from the working tree, applies every operation of the sequence interface with
 * the counterexample's index / operand, and compares against a plain C reference sequence. */
#include "Cello.h"
#include "inputs.h"
#include <stdio.h>
#include <string.h>
#ifndef N
#define N 2
#endif
#ifndef IDX
#define IDX 0
#endif
#ifndef SEQTYPE
#define SEQTYPE Array
#endif
static int64_t rseq[64]; static int nrseq;
/* leave recognisable junk in the allocator's free lists so that uninitialised slots do not happen to be zero */
static void dirty_heap(void) { void* b[32]; for (int i = 0; i < 32; i++) { b[i] = malloc(32 * (size_t)(i + 1)); if (b[i]) memset(b[i], 0x5A, 32 * (size_t)(i + 1)); } for (int i = 0; i < 32; i++) free(b[i]); }
static int same(var a, const char* what) {
  for (int i = 0; i < (int)len(a) && i < 64; i++) { int okt = 0; try { okt = (type_of(get(a, $I(i))) is Int); } catch (e) { okt = 0; }
    if (!okt) { printf("REPRODUCED: %s: element %d does not carry the element type in its header\n", what, i); return 0; } }
  if ((int)len(a) != nrseq) { printf("REPRODUCED: %s: len is %d, reference %d\n", what, (int)len(a), nrseq); return 0; }
  for (int i = 0; i < nrseq; i++) if (c_int(get(a, $I(i))) != rseq[i]) { printf("REPRODUCED: %s: element %d is %lld, reference %lld\n", what, i, (long long)c_int(get(a, $I(i))), (long long)rseq[i]); return 0; }
  int n = 0; foreach (x in a) { if (n >= nrseq || c_int(x) != rseq[n]) { printf("REPRODUCED: %s: forward iteration disagrees at step %d\n", what, n); return 0; } n++; }
  if (n != nrseq) { printf("REPRODUCED: %s: forward iteration yields %d items of %d\n", what, n, nrseq); return 0; }
  n = 0; for (var x = iter_last(a); x isnt Terminal && n <= nrseq + 2; x = iter_prev(a, x)) { n++; }
  if (n != nrseq) { printf("REPRODUCED: %s: backward iteration yields %d items of %d\n", what, n, nrseq); return 0; }
  return 1;
}
static var fresh(void) { dirty_heap(); var a = new(SEQTYPE, Int); nrseq = 0; for (int i = 0; i < N; i++) { push(a, $I(10 + i)); rseq[nrseq++] = 10 + i; } return a; }
int main(int argc, char** argv) {
  int bad = 0; var a;
  a = fresh(); bad |= !same(a, "after construction");
  /* push_at */
  a = fresh(); { int threw = 0; try { push_at(a, $I(99), $I(IDX)); } catch (e in IndexOutOfBoundsError) { threw = 1; }
    if (threw) { bad |= !same(a, "after a push_at that raised IndexOutOfBoundsError (must be unchanged)"); }
    else if (IDX >= 0 && IDX <= N) { memmove(&rseq[IDX + 1], &rseq[IDX], sizeof(int64_t) * (nrseq - IDX)); rseq[IDX] = 99; nrseq++; bad |= !same(a, "after push_at"); } }
  /* pop_at */
  a = fresh(); { int threw = 0; try { pop_at(a, $I(IDX)); } catch (e in IndexOutOfBoundsError) { threw = 1; }
    if (threw) { bad |= !same(a, "after a pop_at that raised IndexOutOfBoundsError (must be unchanged)"); }
    else if (IDX >= 0 && IDX < N) { memmove(&rseq[IDX], &rseq[IDX + 1], sizeof(int64_t) * (nrseq - IDX - 1)); nrseq--; bad |= !same(a, "after pop_at"); } }
  /* assign(x, x) */
  a = fresh(); { assign(a, a); bad |= !same(a, "after assign(a, a)"); }
  /* pop on empty */
  a = new(SEQTYPE, Int); nrseq = 0; { try { pop(a); } catch (e in IndexOutOfBoundsError) { } bad |= !same(a, "after pop on an empty container"); }
  return bad;
}
