/* native replay for Table obligations: the counterexample state is a robin-hood layout over an uninterpreted hash, so
 * instead of injecting it, search the public API for a witness: every sequence of up to 5 set/rem operations over Int
 * keys that collide modulo the table sizes 1, 5 and 11, compared with an association list after every step. */
#include "Cello.h"
#include "inputs.h"
#include <stdio.h>
#include <string.h>
static int64_t KEYS[] = { 0, 5, 10, 55, 1, 11 };
#define NK 6
static int present[NK]; static int64_t value[NK];
static int check(var t, const char* trace) {
  int n = 0; for (int i = 0; i < NK; i++) n += present[i];
  if ((int)len(t) != n) { printf("REPRODUCED: after [%s] len is %d, the map has %d bindings\n", trace, (int)len(t), n); return 0; }
  for (int i = 0; i < NK; i++) {
    if (mem(t, $I(KEYS[i])) != present[i]) { printf("REPRODUCED: after [%s] mem(%lld) = %d, expected %d\n", trace, (long long)KEYS[i], (int)mem(t, $I(KEYS[i])), present[i]); return 0; }
    if (present[i] && c_int(get(t, $I(KEYS[i]))) != value[i]) { printf("REPRODUCED: after [%s] get(%lld) = %lld, expected %lld\n", trace, (long long)KEYS[i], (long long)c_int(get(t, $I(KEYS[i]))), (long long)value[i]); return 0; }
  }
  int seen = 0; foreach (k in t) { seen++; if (seen > n + 2) break; }
  if (seen != n) { printf("REPRODUCED: after [%s] iteration yields %d keys, the map has %d\n", trace, seen, n); return 0; }
  int back = 0; for (var k = iter_last(t); k isnt Terminal && back <= n + 2; k = iter_prev(t, k)) back++;
  if (back != n) { printf("REPRODUCED: after [%s] backward iteration yields %d keys, the map has %d\n", trace, back, n); return 0; }
  return 1;
}
int main(int argc, char** argv) {
  /* ops: 0..NK-1 = set(key i), NK..2NK-1 = rem(key i), 2NK = resize(0) */
  { var e = new(Table, Int, Int); set(e, $I(1), $I(2)); resize(e, 0); int raised = 0;
    try { rem(e, $I(1)); } catch (x in KeyError) { raised = 1; }
    if (!raised || len(e) != 0) { printf("REPRODUCED: rem of an absent key on a table emptied by resize(t, 0) did not raise KeyError\n"); return 1; }
    raised = 0; try { get(e, $I(1)); } catch (x in KeyError) { raised = 1; }
    if (!raised || mem(e, $I(1))) { printf("REPRODUCED: get / mem on a table emptied by resize(t, 0)\n"); return 1; } }
  { var e = new(Table, Int, Int); set(e, $I(1), $I(2)); set(e, $I(2), $I(3)); set(e, $I(3), $I(1));
    var v = get(e, $I(1)); var w = get(e, v);      /* following links: the key is a value object embedded in the same table */
    if (c_int(w) != 3) { printf("REPRODUCED: get(t, get(t, 1)) on {1:2, 2:3, 3:1} gives %lld instead of 3 (a value object of the table taken for the key of its slot)\n", (long long)c_int(w)); return 1; }
    foreach (k in e) { if (c_int(get(e, k)) != (c_int(k) % 3) + 1) { printf("REPRODUCED: get with a key object handed out by iteration\n"); return 1; } } }
  { var e = new(Table, Int, Int); for (int i = 0; i < 5; i++) set(e, $I(i), $I(i)); int raised = 0;
    try { resize(e, 4); } catch (x in FormatError) { raised = 1; }
    if (!raised) { printf("REPRODUCED: resize(t, 4) of a Table holding 5 items did not raise FormatError\n"); return 1; }
    if (len(e) != 5 || !mem(e, $I(4))) { printf("REPRODUCED: a refused resize changed the Table\n"); return 1; } }
  int nops = 2 * NK + 1, depth = 5;
  long total = 1; for (int d = 0; d < depth; d++) total *= nops;
  for (long code = 0; code < total; code++) {
    memset(present, 0, sizeof(present));
    var t = new(Table, Int, Int); char trace[256]; trace[0] = 0; long c = code; int ok = 1;
    for (int d = 0; d < depth && ok; d++) {
      int op = c % nops; c /= nops; char buf[32];
      if (op < NK) { set(t, $I(KEYS[op]), $I(100 + d)); present[op] = 1; value[op] = 100 + d; sprintf(buf, "set %lld; ", (long long)KEYS[op]); }
      else if (op < 2 * NK) { int i = op - NK; if (!present[i]) { sprintf(buf, "-"); strcat(trace, buf); continue; } rem(t, $I(KEYS[i])); present[i] = 0; sprintf(buf, "rem %lld; ", (long long)KEYS[i]); }
      else { resize(t, 0); memset(present, 0, sizeof(present)); sprintf(buf, "resize 0; "); }
      strcat(trace, buf);
      ok = check(t, trace);
    }
    if (!ok) return 1;
    del(t);
  }
  printf("no disagreement found in %ld operation sequences\n", total);
  return 0;
}
