/* native replay for the print_to obligations: print_to on a String sink against the C library's snprintf
   for the same format and arguments, %$ consuming one Cello object, %% consuming nothing, and the
   position returned being the start position plus the number of characters written */
#include "Cello.h"
#include "inputs.h"
#include <stdio.h>
#include <string.h>
static int bad = 0;
static void same(var s, int n, const char* want, const char* what) {
  if (strcmp(c_str(s), want) != 0 || n != (int)strlen(want)) { printf("REPRODUCED: %s: print_to wrote \"%s\" and returned %d, the C library writes \"%s\" (%d)\n", what, c_str(s), n, want, (int)strlen(want)); bad = 1; }
}
#define NATIVE1(FMT, CTYPE, CVAL, OBJ) do { char want[256]; snprintf(want, sizeof want, FMT, (CTYPE)(CVAL)); \
  var s = new(String, $S("")); int n = -99; int threw = 0; \
  try { n = print_to(s, 0, FMT, OBJ); } catch (e) { threw = 1; } \
  if (threw) { printf("REPRODUCED: print_to raised for the well-formed format \"%s\"\n", FMT); bad = 1; } else same(s, n, want, "format \"" FMT "\""); } while (0)
int main(int argc, char** argv) {
  NATIVE1("%li", long, 42, $I(42));            NATIVE1("%5li|", long, -42, $I(-42));       NATIVE1("%-6ld|", long, 7, $I(7));
  NATIVE1("%+ld", long, 7, $I(7));              NATIVE1("% ld", long, 7, $I(7));            NATIVE1("x=% 6ld;", long, 7, $I(7));
  NATIVE1("%06ld", long, -7, $I(-7));           NATIVE1("%lx", long, 255, $I(255));         NATIVE1("%#lo", long, 8, $I(8));
  NATIVE1("%f", double, 1.5, $F(1.5));          NATIVE1("% f", double, 1.5, $F(1.5));       NATIVE1("%.2e", double, 12345.678, $F(12345.678));
  NATIVE1("% .2e", double, 12345.678, $F(12345.678)); NATIVE1("%10.3f|", double, -2.25, $F(-2.25)); NATIVE1("%g", double, 0.0001, $F(0.0001));
  NATIVE1("%Lf", long double, 1.5, $F(1.5));    NATIVE1("%.3Le|", long double, -2.5, $F(-2.5));
  NATIVE1("%.2f Litres", double, 2.5, $F(2.5)); NATIVE1("volume: %8.3f mL", double, 12.25, $F(12.25)); NATIVE1("Ll%ldhL", long, 5, $I(5));
  NATIVE1("%s", char*, "text", $S("text"));     NATIVE1("%8s|", char*, "ab", $S("ab"));     NATIVE1("%-8s|", char*, "ab", $S("ab"));
  NATIVE1("%.2s", char*, "abcdef", $S("abcdef")); NATIVE1("%c", int, 'q', $I('q'));
  { var s = new(String, $S("")); int n = print_to(s, 0, "100%% of %li", $I(3)); same(s, n, "100% of 3", "%% consumes no argument"); }
  { var s = new(String, $S("")); int n = print_to(s, 0, "%$ then %li then %$", $I(1), $I(2), $S("z")); same(s, n, "1 then 2 then \"z\"", "%$ consumes exactly one object each"); }
  { var s = new(String, $S("")); int n = print_to(s, 0, "%li%li%li", $I(1), $I(2), $I(3)); same(s, n, "123", "adjacent specifications"); }
  { var s = new(String, $S("keep")); int n = print_to(s, 4, "%s", $S("!")); if (n != 5 || strcmp(c_str(s), "keep!") != 0) { printf("REPRODUCED: writing at position 4 gives \"%s\" and returns %d (start + characters written is 5)\n", c_str(s), n); bad = 1; }; }
  { int threw = 0; var s = new(String, $S("")); try { print_to(s, 0, "%li %li", $I(1)); } catch (e in FormatError) { threw = 1; }
    if (!threw) { printf("REPRODUCED: too few arguments did not raise FormatError\n"); bad = 1; } }
  { var s = new(String, $S("")); var a = new(Array, Int, $I(1), $I(2)); int n = show_to(a, s, 0);
    if (n != (int)len(s) || strstr(c_str(s), "1, 2") == NULL) { printf("REPRODUCED: Array show wrote \"%s\" returning %d\n", c_str(s), n); bad = 1; } }
  return bad;
}
