#include "Cello.h"
static int dead = 0;
struct Probe { int x; };
static void Probe_Del(var self) { dead++; }
var Probe = Cello(Probe, Instance(New, NULL, Probe_Del));
static void stash(void) { set(current(Thread), $S("keep"), new(Probe)); }
static void churn(int n) { for (int i = 0; i < n; i++) { var t = new(Int, $I(i)); (void)t; } }
int main(int argc, char** argv) {
  stash(); churn(20000);
  printf("probe finalised %d times while still held in thread-local storage\n", dead);
  return dead != 0;
}
