/* native replay: a handled inner exception must not fire again in an enclosing catch-all; depth restored */
#include "Cello.h"
#include "inputs.h"
#include <stdio.h>
int main(int argc, char** argv) {
  int inner = 0, outer = 0, outer2 = 0;
  try {
    try { throw(KeyError, "inner"); } catch (e in KeyError, TypeError) { inner++; }
  } catch (e) { outer++; }
  try {
    try { throw(ValueError, "inner"); } catch (e) { inner++; }
  } catch (e in ValueError) { outer2++; }
  printf("inner handler ran %d times, outer catch-all ran %d times, outer filtered ran %d times, depth now %d\n", inner, outer, outer2, (int)len(current(Exception)));
  if (outer != 0 || outer2 != 0) { printf("REPRODUCED: an exception handled by the inner block fired again in the enclosing block\n"); return 1; }
  if (inner != 2 || len(current(Exception)) != 0) { printf("REPRODUCED: handler count / depth wrong\n"); return 1; }
  return 0;
}
