/* native replay: a handled inner exception must not fire again in an enclosing catch-all; depth restored */
#include "Cello.h"
#include "inputs.h"
#include <stdio.h>
/* recursive use of one try block: the innermost activation throws a kind that only the outermost handler accepts */
static int rec_trace[8]; static int rec_n;
static void rec(int level, int top) {
  try {
    if (level == 0) throw(KeyError, "from the innermost activation"); else rec(level - 1, top);
  } catch (e in (level == top ? KeyError : TypeError)) { rec_trace[rec_n++ & 7] = 100 + level; }
}
int main(int argc, char** argv) {
  int inner = 0, outer = 0, outer2 = 0;
  try {
    try { throw(KeyError, "inner"); } catch (e in KeyError, TypeError) { inner++; }
  } catch (e) { outer++; }
  try {
    try { throw(ValueError, "inner"); } catch (e) { inner++; }
  } catch (e in ValueError) { outer2++; }
  printf("inner handler ran %d times, outer catch-all ran %d times, outer filtered ran %d times, depth now %d\n", inner, outer, outer2, (int)len(current(Exception)));
  if (outer != 0 || outer2 != 0) { printf("REPRODUCED: an exception handled by the inner block fired again in the enclosing block\n"); return 1; }
  if (inner != 2 || len(current(Exception)) != 0) { printf("REPRODUCED: handler count / depth wrong\n"); return 1; }
  { int caught = 0; rec_n = 0;
    try { rec(3, 3); } catch (e) { caught = 1; }
    if (caught || rec_n != 1 || rec_trace[0] != 103) { printf("REPRODUCED: an exception thrown in the innermost of four open activations of one try block was not handled exactly once by the outermost activation, the only one whose filter matches (escaped=%d, handlers run=%d)\n", caught, rec_n); return 1; } }
  return 0;
}
