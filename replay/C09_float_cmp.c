#include "Cello.h"
#include "inputs.h"
#include <stdio.h>
#ifndef IN_A
#define IN_A 0.0
#define IN_B 0.0
#endif
#define SIGN(x) (((x) > 0) - ((x) < 0))
int main(int argc, char** argv) {
  double a = IN_A, b = IN_B;
  int r = cmp($F(a), $F(b));
  int want = (a > b) - (a < b);
  printf("cmp($F(%a), $F(%a)) = %d, order sign = %d\n", a, b, r, want);
  if (SIGN(r) != want) { printf("REPRODUCED: cmp disagrees with the order of the reals\n"); return 1; }
  return 0;
}
