/* native replay for the C06 collector obligations: del while the collector is stopped must finalise the object */
#include "Cello.h"
#include "inputs.h"
#include <stdio.h>
static int dead = 0;
struct Probe { int x; };
static void Probe_Del(var self) { dead++; }
var Probe = Cello(Probe, Instance(New, NULL, Probe_Del));
/* ownership link swept in one sweep: the owner's destructor deletes what it owns (as Box does) */
static int leaf_made = 0, leaf_dead = 0, owner_dead = 0;
struct Leaf { int x; }; struct Owner { var leaf; };
static void Leaf_New(var self, var args) { leaf_made++; }
static void Leaf_Del(var self) { leaf_dead++; }
static void Owner_Del(var self) { struct Owner* o = self; owner_dead++; if (o->leaf) del(o->leaf); }
var Leaf = Cello(Leaf, Instance(New, Leaf_New, Leaf_Del));
var Owner = Cello(Owner, Instance(New, NULL, Owner_Del));
/* a long chain held only by its head: every link must survive every collection, however far from a root it is */
static int node_dead = 0; static volatile int chain_bad = 0;
struct Node { var next; int id; };
static void Node_Del(var self) { node_dead++; }
var Node = Cello(Node, Instance(New, NULL, Node_Del));
static var chain_worker(var args) {
  struct Node* head = new(Node); struct Node* tail = head;
  for (int i = 1; i < 9000; i++) { struct Node* n = new(Node); n->id = i; tail->next = n; tail = n; }
  for (int i = 0; i < 3000; i++) { new(Int, $I(i)); }       /* garbage, to force collections */
  int dead_while_held = node_dead, n = 0;
  for (struct Node* p = head; p && dead_while_held == 0 && n < 9000; p = p->next) n++;
  chain_bad = dead_while_held; return NULL;
}
static var pairs_worker(var args) {
  for (int i = 0; i < 200; i++) { struct Owner* o = new(Owner); o->leaf = new(Leaf); }
  return NULL;       /* nothing deleted by hand: the thread's collector is torn down at thread exit */
}
int main(int argc, char** argv) {
  var x = new(Probe);              /* managed object, allocated while the collector runs */
  stop(current(GC));
  del(x);
  start(current(GC));
  printf("object deleted while the collector was stopped: finalised %d times\n", dead);
  if (dead != 1) { printf("REPRODUCED: del of a managed object while the collector is stopped did not finalise it\n"); return 1; }
  { var t = new(Thread, $(Function, chain_worker)); call(t); join(t);
    if (chain_bad) { printf("REPRODUCED: links of a 9000-link chain held by its head were finalised by a collection while still reachable\n"); return 1; } }
  { var t = new(Thread, $(Function, pairs_worker)); call(t); join(t);
    printf("worker made %d owner/leaf pairs; at teardown %d owners and %d leaves were finalised\n", leaf_made, owner_dead, leaf_dead);
    if (leaf_dead != leaf_made || owner_dead != leaf_made) { printf("REPRODUCED: %d of %d owned objects were never finalised (their owner was swept first and its destructor's del() only struck them from the pending list), %d finalised twice or more\n", leaf_made > leaf_dead ? leaf_made - leaf_dead : 0, leaf_made, leaf_dead > leaf_made ? leaf_dead - leaf_made : 0); return 1; } }
  return 0;
}
