/* native replay for the C06 collector obligations: del while the collector is stopped must finalise the object */
#include "Cello.h"
#include "inputs.h"
#include <stdio.h>
static int dead = 0;
struct Probe { int x; };
static void Probe_Del(var self) { dead++; }
var Probe = Cello(Probe, Instance(New, NULL, Probe_Del));
int main(int argc, char** argv) {
  var x = new(Probe);              /* managed object, allocated while the collector runs */
  stop(current(GC));
  del(x);
  start(current(GC));
  printf("object deleted while the collector was stopped: finalised %d times\n", dead);
  if (dead != 1) { printf("REPRODUCED: del of a managed object while the collector is stopped did not finalise it\n"); return 1; }
  return 0;
}
