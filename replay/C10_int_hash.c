#include "Cello.h"
#include "inputs.h"
#include <stdio.h>
#ifndef IN_A
#define IN_A 1
#define IN_B 1
#endif
int main(int argc, char** argv) {
  int64_t a = IN_A, b = IN_B;
  var x = $I(a), y = new(Int, $I(b));
  if (eq(x, y) && hash(x) != hash(y)) { printf("REPRODUCED: equal Ints hash differently\n"); return 1; }
  var z = copy(x);
  if (!eq(z, x) || hash(z) != hash(x)) { printf("REPRODUCED: copy is not equal / hashes differently\n"); return 1; }
  return 0;
}
