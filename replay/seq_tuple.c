/* native replay for the Tuple obligations */
#include "Cello.h"
#include "inputs.h"
#include <stdio.h>
#ifndef N
#define N 2
#endif
#ifndef IDX
#define IDX 0
#endif
int main(int argc, char** argv) {
  int bad = 0;
  /* backward iteration over an empty Tuple ends at once */
  { var t = tuple(); int n = 0; for (var x = iter_last(t); x isnt Terminal && n < 3; x = iter_prev(t, x)) n++; if (n) { printf("REPRODUCED: backward iteration over tuple() yields %d items\n", n); bad = 1; } }
  /* pop_at on a stack tuple: ValueError and unchanged */
  { var t = tuple($I(1), $I(2), $I(3)); int threw = 0; try { pop_at(t, $I(0)); } catch (e in ValueError) { threw = 1; }
    if (!threw || len(t) != 3 || c_int(get(t, $I(0))) != 1) { printf("REPRODUCED: pop_at on a stack Tuple: raised=%d len=%d first=%lld (must raise and leave 3 items, first 1)\n", threw, (int)len(t), (long long)c_int(get(t, $I(0)))); bad = 1; } }
  /* rem of an absent item raises */
  { var t = new(Tuple, $I(1), $I(2)); int threw = 0; try { rem(t, $I(7)); } catch (e in ValueError) { threw = 1; } if (!threw) { printf("REPRODUCED: rem of an absent item did not raise ValueError\n"); bad = 1; } }
  /* a Tuple holding the same object twice */
#ifdef DUP
  { var a = $I(1), b = $I(2); var t = tuple(a, b, a); int n = 0; foreach (x in t) { n++; if (n > 10) break; } if (n != 3) { printf("REPRODUCED: forward iteration over tuple(a, b, a) yields %d items (stopped at 11), len is 3\n", n); bad = 1; } }
#endif
  return bad;
}
