/* native replay for the Tuple obligations */
#include "Cello.h"
#include "inputs.h"
#include <stdio.h>
#ifndef N
#define N 2
#endif
#ifndef IDX
#define IDX 0
#endif
/* objects reachable only through a Tuple stored by value inside a container must survive collections */
static int probe_dead = 0; struct Probe { int x; };
static void Probe_Del(var self) { probe_dead++; }
var Probe = Cello(Probe, Instance(New, NULL, Probe_Del));
static void __attribute__((noinline)) fill(var arr, int n) { for (int i = 0; i < n; i++) { var p = new(Probe); var q = new(Probe); push(arr, tuple(p, q)); } }
static void __attribute__((noinline)) scrub(int depth) { volatile char pad[512]; for (int i = 0; i < 512; i++) pad[i] = 0; if (depth > 0) scrub(depth - 1); }
static var embedded_worker(var args) {
  var arr = new(Array, Tuple); fill(arr, 40); scrub(40);
  for (int i = 0; i < 4000; i++) { new(Int, $I(i)); }       /* garbage, to force collections */
  int dead = probe_dead; if (len(arr) != 40) dead = -1;
  return dead ? $I(1) : NULL;
}
static volatile int embedded_bad = 0;
static var embedded_run(var args) { embedded_bad = embedded_worker(args) != NULL; return NULL; }
int main(int argc, char** argv) {
  { var th = new(Thread, $(Function, embedded_run)); call(th); join(th);
    if (embedded_bad) { printf("REPRODUCED: objects held only by Tuples stored inside an Array were finalised by a collection while the Array was alive (%d finalised)\n", probe_dead); return 1; } }
  int bad = 0;
  /* backward iteration over an empty Tuple ends at once */
  { var t = tuple(); int n = 0; for (var x = iter_last(t); x isnt Terminal && n < 3; x = iter_prev(t, x)) n++; if (n) { printf("REPRODUCED: backward iteration over tuple() yields %d items\n", n); bad = 1; } }
  /* pop_at on a stack tuple: ValueError and unchanged */
  { var t = tuple($I(1), $I(2), $I(3)); int threw = 0; try { pop_at(t, $I(0)); } catch (e in ValueError) { threw = 1; }
    if (!threw || len(t) != 3 || c_int(get(t, $I(0))) != 1) { printf("REPRODUCED: pop_at on a stack Tuple: raised=%d len=%d first=%lld (must raise and leave 3 items, first 1)\n", threw, (int)len(t), (long long)c_int(get(t, $I(0)))); bad = 1; } }
  /* rem of an absent item raises */
  { var t = new(Tuple, $I(1), $I(2)); int threw = 0; try { rem(t, $I(7)); } catch (e in ValueError) { threw = 1; } if (!threw) { printf("REPRODUCED: rem of an absent item did not raise ValueError\n"); bad = 1; } }
  /* a Tuple holding the same object twice */
#ifdef DUP
  { var a = $I(1), b = $I(2); var t = tuple(a, b, a); int n = 0; foreach (x in t) { n++; if (n > 10) break; } if (n != 3) { printf("REPRODUCED: forward iteration over tuple(a, b, a) yields %d items (stopped at 11), len is 3\n", n); bad = 1; } }
#endif
  return bad;
}
