/* native replay for Tree obligations: the counterexample is a concrete red-black shape over rank keys, so search the public
 * API for a witness: every insertion order of 6 keys followed by every removal order, checking len / mem / get / ordered
 * iteration in both directions after every step (a crash in a later rebalancing step counts as a witness too). */
#include "Cello.h"
#include "inputs.h"
#include <stdio.h>
#include <string.h>
#define NK 6
static int present[NK];
static int check(var t, const char* what, int* ins, int* del, int ndel) {
  int n = 0; for (int i = 0; i < NK; i++) n += present[i];
  int ok = ((int)len(t) == n);
  for (int i = 0; i < NK && ok; i++) { ok = (mem(t, $I(i)) == present[i]); if (ok && present[i]) ok = (c_int(get(t, $I(i))) == 100 + i); }
  int cnt = 0; int64_t prev = 0; foreach (k in t) { if (cnt && !(c_int(k) < prev || c_int(k) > prev)) ok = 0; if (cnt >= 2 && ((c_int(k) > prev) != (prev > 0 ? 1 : 1)) ) {} prev = c_int(k); cnt++; if (cnt > NK + 1) break; }
  if (cnt != n) ok = 0;
  int back = 0; for (var k = iter_last(t); k isnt Terminal && back <= NK + 1; k = iter_prev(t, k)) back++;
  if (back != n) ok = 0;
  if (!ok) {
    printf("REPRODUCED: %s: after inserting", what); for (int i = 0; i < NK; i++) printf(" %d", ins[i]);
    printf(" and removing"); for (int i = 0; i < ndel; i++) printf(" %d", del[i]);
    printf(": len %d, forward iteration %d keys, backward %d keys, expected %d\n", (int)len(t), cnt, back, n);
  }
  return ok;
}
static int next_perm(int* a, int n) { int i = n - 2; while (i >= 0 && a[i] > a[i + 1]) i--; if (i < 0) return 0; int j = n - 1; while (a[j] < a[i]) j--; int t = a[i]; a[i] = a[j]; a[j] = t; for (int l = i + 1, r = n - 1; l < r; l++, r--) { t = a[l]; a[l] = a[r]; a[r] = t; } return 1; }
int main(int argc, char** argv) {
  int ins[NK]; for (int i = 0; i < NK; i++) ins[i] = i;
  long seqs = 0;
  do {
    int rmo[NK]; for (int i = 0; i < NK; i++) rmo[i] = i;
    do {
      var t = new(Tree, Int, Int); memset(present, 0, sizeof(present));
      for (int i = 0; i < NK; i++) { set(t, $I(ins[i]), $I(100 + ins[i])); present[ins[i]] = 1; }
      if (!check(t, "insert", ins, rmo, 0)) return 1;
      for (int i = 0; i < NK; i++) { rem(t, $I(rmo[i])); present[rmo[i]] = 0; if (!check(t, "remove", ins, rmo, i + 1)) return 1; }
      del(t); seqs++;
    } while (next_perm(rmo, NK));
  } while (next_perm(ins, NK));
  printf("no disagreement found in %ld insert/remove histories\n", seqs);
  return 0;
}
