/* native replay for Tree obligations: the counterexample is a concrete red-black shape over rank keys, so search the public
 * API for a witness: every insertion order of 6 keys followed by every removal order, checking len / mem / get / ordered
 * iteration in both directions after every step (a crash in a later rebalancing step counts as a witness too). */
#include "Cello.h"
#include "inputs.h"
#include <stdio.h>
#include <string.h>
#define NK 6
static int present[NK];
static int check(var t, const char* what, int* ins, int* del, int ndel) {
  int n = 0; for (int i = 0; i < NK; i++) n += present[i];
  int ok = ((int)len(t) == n);
  for (int i = 0; i < NK && ok; i++) { ok = (mem(t, $I(i)) == present[i]); if (ok && present[i]) ok = (c_int(get(t, $I(i))) == 100 + i); }
  int cnt = 0; int64_t prev = 0; foreach (k in t) { if (cnt && !(c_int(k) < prev || c_int(k) > prev)) ok = 0; if (cnt >= 2 && ((c_int(k) > prev) != (prev > 0 ? 1 : 1)) ) {} prev = c_int(k); cnt++; if (cnt > NK + 1) break; }
  if (cnt != n) ok = 0;
  int back = 0; for (var k = iter_last(t); k isnt Terminal && back <= NK + 1; k = iter_prev(t, k)) back++;
  if (back != n) ok = 0;
  if (!ok) {
    printf("REPRODUCED: %s: after inserting", what); for (int i = 0; i < NK; i++) printf(" %d", ins[i]);
    printf(" and removing"); for (int i = 0; i < ndel; i++) printf(" %d", del[i]);
    printf(": len %d, forward iteration %d keys, backward %d keys, expected %d\n", (int)len(t), cnt, back, n);
  }
  return ok;
}
static int next_perm(int* a, int n) { int i = n - 2; while (i >= 0 && a[i] > a[i + 1]) i--; if (i < 0) return 0; int j = n - 1; while (a[j] < a[i]) j--; int t = a[i]; a[i] = a[j]; a[j] = t; for (int l = i + 1, r = n - 1; l < r; l++, r--) { t = a[l]; a[l] = a[r]; a[r] = t; } return 1; }
/* balance, through the public API only: a key type whose Cmp counts its calls - the comparisons one lookup makes are the depth of the key */
static long cmp_calls = 0;
struct CKey { int64_t v; };
static int CKey_Cmp(var a, var b) { cmp_calls++; int64_t x = ((struct CKey*)a)->v, y = ((struct CKey*)cast(b, type_of(a)))->v; return x < y ? -1 : x > y; }
static uint64_t CKey_Hash(var a) { return (uint64_t)((struct CKey*)a)->v; }
var CKey = Cello(CKey, Instance(Cmp, CKey_Cmp), Instance(Hash, CKey_Hash));
static int balanced_after(int n, int descending) {
  var t = new(Tree, CKey, Int); int worst = 0;
  for (int i = 1; i <= n; i++) { struct CKey k = { descending ? n + 1 - i : i }; set(t, $(CKey, k.v), $I(i)); }
  for (int i = 1; i <= n; i++) { cmp_calls = 0; get(t, $(CKey, i)); if (cmp_calls > worst) worst = (int)cmp_calls; }
  int bound = 2; for (int m = n + 1; m > 1; m /= 2) bound += 2;       /* 2*log2(n+1) + 2 */
  if (worst > bound) { printf("REPRODUCED: after %d %s insertions one lookup makes %d comparisons: the tree is deeper than 2*log2(n+1) (bound %d)\n", n, descending ? "descending" : "ascending", worst, bound); return 0; }
  del(t); return 1;
}
int main(int argc, char** argv) {
  if (!balanced_after(200, 0) || !balanced_after(200, 1) || !balanced_after(14, 0)) return 1;
  int ins[NK]; for (int i = 0; i < NK; i++) ins[i] = i;
  long seqs = 0;
  do {
    int rmo[NK]; for (int i = 0; i < NK; i++) rmo[i] = i;
    do {
      var t = new(Tree, Int, Int); memset(present, 0, sizeof(present));
      for (int i = 0; i < NK; i++) { set(t, $I(ins[i]), $I(100 + ins[i])); present[ins[i]] = 1; }
      if (!check(t, "insert", ins, rmo, 0)) return 1;
      for (int i = 0; i < NK; i++) { rem(t, $I(rmo[i])); present[rmo[i]] = 0; if (!check(t, "remove", ins, rmo, i + 1)) return 1; }
      del(t); seqs++;
    } while (next_perm(rmo, NK));
  } while (next_perm(ins, NK));
  printf("no disagreement found in %ld insert/remove histories\n", seqs);
  return 0;
}
